//! tfsim-noserde — the Fmt leg of the C20 simulator, built against twofloat WITHOUT its `serde`
//! feature (the crate's default feature set). Shares prng / values / common / iosim / fmtspecs /
//! fmtleg with the main simulator (../sim/src). See /verif/DESIGN.md §7.6.
//!
//! exit 0: held; 1: VIOLATION printed; 2: harness error.

#[path = "../../sim/src/common.rs"]
mod common;
#[path = "../../sim/src/fmtleg.rs"]
mod fmtleg;
#[path = "../../sim/src/fmtspecs.rs"]
mod fmtspecs;
#[path = "../../sim/src/iosim.rs"]
mod iosim;
#[path = "../../sim/src/prng.rs"]
mod prng;
#[path = "../../sim/src/values.rs"]
mod values;

use common::*;
use prng::{run_seed, Rng};
use std::path::PathBuf;
use std::time::Instant;

const PROPERTY: &str = "C20";
const LABEL: &str = "default_noserde";

fn case_of(base: u64, index: u64, st: &mut values::GenStats) -> fmtleg::FmtCase {
    let mut r = Rng::new(run_seed(base ^ 0x0F0F_5E4D_E000, index));
    let v = values::gen_value(&mut r, st);
    fmtleg::generate(&mut r, v.hi, v.lo)
}

fn minimise(c: &fmtleg::FmtCase, class: &str) -> fmtleg::FmtCase {
    let mut cur = c.clone();
    let mut execs = 0;
    'outer: loop {
        for cand in fmtleg::shrink(&cur) {
            execs += 1;
            if execs > 3000 {
                break 'outer;
            }
            if fmtleg::execute(&cand).violations.iter().any(|v| v.class == class) {
                cur = cand;
                continue 'outer;
            }
        }
        break;
    }
    cur
}

fn replay_file(c: &fmtleg::FmtCase, class: &str, detail: &str, base: u64, index: u64) -> serde_json::Value {
    let mut case = serde_json::to_value(c).unwrap_or(serde_json::Value::Null);
    if let Some(o) = case.as_object_mut() {
        o.insert("leg".into(), "Fmt".into());
    }
    serde_json::json!({
        "property": PROPERTY, "class": class, "detail": detail, "base_seed": base, "run_index": index,
        "minimised": true, "shrink_steps": 0, "config_label": LABEL, "history": [], "case": case, "original_case": case
    })
}

fn main() {
    install_panic_hook();
    if let Err(e) = values::host_selfcheck().and_then(|_| construct_selfcheck()) {
        eprintln!("HARNESS ERROR: {e}");
        std::process::exit(2);
    }
    let mut seed: u64 = std::env::var("VERIF_SEED").ok().and_then(|s| s.trim().parse().ok()).unwrap_or(20260926);
    let mut runs: u64 = 100_000;
    let mut out_dir: Option<PathBuf> = std::env::var("VERIF_OUT_DIR").ok().filter(|s| !s.is_empty()).map(PathBuf::from);
    let mut verif_dir = PathBuf::from("/verif");
    let mut summary: Option<PathBuf> = None;
    let mut replay: Option<PathBuf> = None;
    let mut crash_hunt = false;
    let mut it = std::env::args().skip(1);
    while let Some(a) = it.next() {
        match a.as_str() {
            "--seed" => seed = it.next().and_then(|s| s.parse().ok()).unwrap_or(seed),
            "--runs" => runs = it.next().and_then(|s| s.parse().ok()).unwrap_or(runs),
            "--out-dir" => out_dir = it.next().map(PathBuf::from),
            "--verif-dir" => verif_dir = it.next().map(PathBuf::from).unwrap_or(verif_dir),
            "--summary-only" => summary = it.next().map(PathBuf::from),
            "--replay" => replay = it.next().map(PathBuf::from),
            "--crash-hunt" => crash_hunt = true,
            // options of the full simulator that take a value and mean nothing here
            "--seeds" | "--sweep" | "--config-label" | "--workers" | "--tier" | "--merge-summary" | "--skipped-config" | "--failed-config" => {
                it.next();
            }
            _ => {}
        }
    }
    let out_dir = out_dir.unwrap_or(verif_dir);

    if let Some(p) = replay {
        let text = std::fs::read_to_string(&p).unwrap_or_default();
        let v: serde_json::Value = match serde_json::from_str(&text) {
            Ok(v) => v,
            Err(e) => {
                eprintln!("HARNESS ERROR: cannot parse replay file {}: {e}", p.display());
                std::process::exit(2);
            }
        };
        let class = v.get("class").and_then(|c| c.as_str()).unwrap_or("").to_string();
        let case: fmtleg::FmtCase = match serde_json::from_value(v.get("case").cloned().unwrap_or_default()) {
            Ok(c) => c,
            Err(e) => {
                eprintln!("HARNESS ERROR: replay file {} holds no formatting case: {e}", p.display());
                std::process::exit(2);
            }
        };
        let rep = fmtleg::execute(&case);
        println!("replay {}: leg=Fmt (configuration {LABEL}) recorded class={class}", p.display());
        for x in &rep.violations {
            println!("  {}: {}", x.class, x.detail);
        }
        if rep.violations.iter().any(|x| x.class == class) {
            println!("REPRODUCED class={class} detail_identical={}", rep.violations.iter().any(|x| Some(x.detail.as_str()) == v.get("detail").and_then(|d| d.as_str())));
            println!("VIOLATION property={PROPERTY} replay={}", p.display());
            std::process::exit(1);
        } else if !rep.violations.is_empty() {
            println!("REPRODUCED-DIFFERENTLY: recorded class {class} does not occur");
            println!("VIOLATION property={PROPERTY} replay={}", p.display());
            std::process::exit(1);
        }
        println!("NOT-REPRODUCED class={class} (the recorded violation does not occur on this tree)");
        return;
    }

    let t0 = Instant::now();
    let mut st = values::GenStats::default();
    let mut faulted = 0u64;
    let mut steps = 0u64;
    let mut exit = 0;
    let mut nviol = 0u64;
    let mut digest = 0u64;
    for i in 0..runs {
        let c = case_of(seed, i, &mut st);
        if crash_hunt {
            // announce the run before executing it: if the process dies, the last line names the culprit
            eprintln!("crash-hunt: run {i}");
        }
        let rep = fmtleg::execute(&c);
        steps += rep.steps;
        faulted += rep.faulted as u64;
        digest = digest.wrapping_add(rep.log.finish() ^ i);
        if let Some(v) = rep.violations.iter().find(|v| v.class != "HARNESS") {
            let m = minimise(&c, &v.class);
            let detail = fmtleg::execute(&m).violations.iter().find(|x| x.class == v.class).map(|x| x.detail.clone()).unwrap_or(v.detail.clone());
            let dir = out_dir.join("replays");
            let _ = std::fs::create_dir_all(&dir);
            let path = dir.join(format!("{PROPERTY}-{LABEL}-{seed}-{i}-Fmt-{}.json", v.class));
            let _ = std::fs::write(&path, serde_json::to_string_pretty(&replay_file(&m, &v.class, &detail, seed, i)).unwrap() + "\n");
            println!("violation class={} leg=Fmt base_seed={seed} run={i} shrink_steps=0", v.class);
            println!("  {detail}");
            println!("VIOLATION property={PROPERTY} replay={}", path.display());
            exit = 1;
            nviol = 1;
            break;
        }
        if rep.violations.iter().any(|v| v.class == "HARNESS") {
            eprintln!("HARNESS ERROR: {}", rep.violations[0].detail);
            exit = 2;
            break;
        }
    }
    let wall = t0.elapsed().as_secs_f64();
    if let Some(sp) = summary {
        let s = serde_json::json!({
            "configuration": LABEL,
            "note": "formatting leg only, twofloat built with its default features (serde off)",
            "simulated_runs": runs, "legs_executed": runs, "legs_under_planned_faults": faulted,
            "seam_events": steps, "violations": nviol, "exit": exit, "wall_s": wall,
            "batch_digest": format!("{:016x}", digest),
        });
        let _ = std::fs::write(sp, serde_json::to_string_pretty(&s).unwrap() + "\n");
    }
    println!("runs={runs} legs={runs} (Fmt only, faulted {faulted}) seam_events={steps} wall={wall:.1}s");
    if exit == 0 {
        println!("OK property={PROPERTY} held on everything explored (configuration: {LABEL})");
    }
    std::process::exit(exit);
}
