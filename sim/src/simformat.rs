//! SimFormat — a hand-written serde data format whose every call across the
//! `Serializer` / `Deserializer` seams can be failed, and whose stored record
//! can be damaged. The code under test (twofloat's `Serialize` /
//! `Deserialize`, its `Field` and visitor, `TryFrom`, `no_overlap`) is real;
//! this file is the simulated environment.

use crate::common::STEP_CAP;
use crate::prng::Hash64;
use crate::values::hexword;
use serde::de::{self, DeserializeSeed, Deserializer, MapAccess, SeqAccess, Visitor};
use serde::ser::{self, Serialize as SerTrait};
use serde::{Deserialize, Serialize};
use std::fmt;

// ---------------------------------------------------------------- errors

#[derive(Clone, Debug, PartialEq, Eq)]
pub enum ErrKind {
    /// injected by the simulator: the format's own I/O failed
    Io,
    /// record ended inside an entry (torn write)
    Eof,
    /// format-level: data left after the value (strict formats only)
    Trailing,
    /// the code under test broke the access protocol
    Protocol,
    // raised by the code under test / serde through `de::Error`
    UnknownField(String),
    MissingField(String),
    DuplicateField(String),
    InvalidLength(usize),
    InvalidValue,
    InvalidType,
    Custom,
}

#[derive(Clone, Debug)]
pub struct SimError {
    pub kind: ErrKind,
    pub msg: String,
}

impl SimError {
    pub fn new(kind: ErrKind) -> Self {
        let msg = format!("{:?}", kind);
        SimError { kind, msg }
    }
}

impl fmt::Display for SimError {
    fn fmt(&self, f: &mut fmt::Formatter<'_>) -> fmt::Result {
        f.write_str(&self.msg)
    }
}
impl std::error::Error for SimError {}

impl de::Error for SimError {
    fn custom<T: fmt::Display>(msg: T) -> Self {
        SimError { kind: ErrKind::Custom, msg: msg.to_string() }
    }
    fn unknown_field(field: &str, expected: &'static [&'static str]) -> Self {
        SimError { kind: ErrKind::UnknownField(field.to_string()), msg: format!("unknown field {field:?}, expected {expected:?}") }
    }
    fn missing_field(field: &'static str) -> Self {
        SimError { kind: ErrKind::MissingField(field.to_string()), msg: format!("missing field {field:?}") }
    }
    fn duplicate_field(field: &'static str) -> Self {
        SimError { kind: ErrKind::DuplicateField(field.to_string()), msg: format!("duplicate field {field:?}") }
    }
    fn invalid_length(len: usize, exp: &dyn de::Expected) -> Self {
        SimError { kind: ErrKind::InvalidLength(len), msg: format!("invalid length {len}, expected {exp}") }
    }
    fn invalid_value(unexp: de::Unexpected, exp: &dyn de::Expected) -> Self {
        SimError { kind: ErrKind::InvalidValue, msg: format!("invalid value {unexp}, expected {exp}") }
    }
    fn invalid_type(unexp: de::Unexpected, exp: &dyn de::Expected) -> Self {
        SimError { kind: ErrKind::InvalidType, msg: format!("invalid type {unexp}, expected {exp}") }
    }
}

impl ser::Error for SimError {
    fn custom<T: fmt::Display>(msg: T) -> Self {
        SimError { kind: ErrKind::Custom, msg: msg.to_string() }
    }
}

// ---------------------------------------------------------------- record

/// One value slot of the stored record.
#[derive(Clone, Debug, Serialize, Deserialize, PartialEq)]
pub enum Slot {
    F64(#[serde(with = "hexword")] u64),
    F32(u32),
    U64(u64),
    I64(i64),
    Bool(bool),
    Str(String),
    Unit,
}

impl Slot {
    pub fn tag(&self) -> u8 {
        match self {
            Slot::F64(_) => 1,
            Slot::F32(_) => 2,
            Slot::U64(_) => 3,
            Slot::I64(_) => 4,
            Slot::Bool(_) => 5,
            Slot::Str(_) => 6,
            Slot::Unit => 7,
        }
    }
    fn hash_into(&self, h: &mut Hash64) {
        h.byte(self.tag());
        match self {
            Slot::F64(b) => h.u64(*b),
            Slot::F32(b) => h.u64(*b as u64),
            Slot::U64(b) => h.u64(*b),
            Slot::I64(b) => h.u64(*b as u64),
            Slot::Bool(b) => h.byte(*b as u8),
            Slot::Str(s) => h.str(s),
            Slot::Unit => {}
        }
    }
}

/// How a map key is handed to the identifier visitor.
#[derive(Clone, Copy, Debug, Serialize, Deserialize, PartialEq, Eq)]
pub enum KeyKind {
    Str,
    Borrowed,
    Owned,
    Bytes,
    Index(u64),
}

#[derive(Clone, Debug, Serialize, Deserialize, PartialEq)]
pub struct Entry {
    pub key: String,
    pub kind: KeyKind,
    /// `None`: the record was torn between this key and its value
    pub val: Option<Slot>,
}

#[derive(Clone, Copy, Debug, Serialize, Deserialize, PartialEq, Eq)]
pub enum Mode {
    Seq,
    Map,
    /// the whole record arrives as one scalar slot (wrong top-level shape)
    Scalar,
}

#[derive(Clone, Copy, Debug, Serialize, Deserialize, PartialEq, Eq)]
pub enum Hint {
    Exact,
    Absent,
    Zero,
    Huge,
}

#[derive(Clone, Copy, Debug, Serialize, Deserialize, PartialEq, Eq)]
pub struct CallFault {
    /// index of the access / serializer call that fails
    pub at: usize,
    /// every later call fails too
    pub sticky: bool,
}

// ---------------------------------------------------------------- deserializer

pub struct DeRun<'de> {
    pub entries: &'de [Entry],
    pub mode: Mode,
    pub hint: Hint,
    pub strict_end: bool,
    pub fault: Option<CallFault>,
    /// the format drives map decoding from the `fields` argument of
    /// `deserialize_struct`: only entries whose key is listed there are
    /// presented to the visitor, the others are left alone (what serde's own
    /// `#[serde(flatten)]` machinery and some real formats do)
    pub honour_fields: bool,
    /// what `is_human_readable()` reports (binary formats say false)
    pub human_readable: bool,
    /// a typed self-describing format (like CBOR, or serde_json for these requests): a
    /// seq/tuple request on a stored map and a map request on a stored sequence fail with
    /// "invalid type"; `deserialize_struct` and `deserialize_any` take either
    pub typed_requests: bool,
    /// a format that checks struct names (like RON, or an XML root tag): `deserialize_struct`
    /// with another name than the one the record was written under fails
    pub expect_struct_name: Option<String>,
    /// what the code under test passed to `deserialize_struct`
    pub fields_seen: Option<&'static [&'static str]>,
    pub struct_name_seen: Option<&'static str>,
    /// Some(shape) if the code under test asked for a sequence/tuple or a map instead of a struct
    pub requested_shape: Option<Mode>,
    // state
    pos: usize,
    pending_value: bool,
    pub calls: usize,
    pub fired: bool,
    dead: bool,
    pub protocol_violations: u32,
    pub trailing_rejected: bool,
    pub log: Hash64,
    pub sig: Hash64,
}

impl<'de> DeRun<'de> {
    pub fn new(entries: &'de [Entry], mode: Mode, hint: Hint, strict_end: bool, fault: Option<CallFault>) -> Self {
        DeRun {
            entries,
            mode,
            hint,
            strict_end,
            fault,
            honour_fields: false,
            human_readable: true,
            typed_requests: false,
            expect_struct_name: None,
            fields_seen: None,
            struct_name_seen: None,
            requested_shape: None,
            pos: 0,
            pending_value: false,
            calls: 0,
            fired: false,
            dead: false,
            protocol_violations: 0,
            trailing_rejected: false,
            log: Hash64::default(),
            sig: Hash64::default(),
        }
    }

    /// Every access call passes through here: count it, maybe fail it.
    fn gate(&mut self, what: u8) -> Result<(), SimError> {
        let idx = self.calls;
        self.calls += 1;
        if self.calls as u64 > STEP_CAP {
            panic!("simulator step cap exceeded in deserializer");
        }
        self.log.byte(what);
        self.sig.byte(what);
        let fail = self.dead || matches!(self.fault, Some(f) if f.at == idx);
        if fail {
            self.fired = true;
            if matches!(self.fault, Some(f) if f.sticky) {
                self.dead = true;
            }
            self.log.byte(0xEE);
            self.sig.byte(0xEE);
            return Err(SimError::new(ErrKind::Io));
        }
        Ok(())
    }

    /// does the format present this entry to the visitor at all?
    fn presented(&self, e: &Entry) -> bool {
        if !self.honour_fields {
            return true;
        }
        match self.fields_seen {
            Some(fs) => fs.iter().any(|f| *f == e.key),
            None => true,
        }
    }

    fn remaining_hint(&self, remaining: usize) -> Option<usize> {
        match self.hint {
            Hint::Exact => Some(remaining),
            Hint::Absent => None,
            Hint::Zero => Some(0),
            Hint::Huge => Some(usize::MAX / 2),
        }
    }

    fn leftover(&self) -> bool {
        match self.mode {
            Mode::Seq => self.pos < self.entries.len() && self.entries[self.pos].val.is_some(),
            Mode::Map => self.pending_value || self.entries[self.pos.min(self.entries.len())..].iter().any(|e| self.presented(e)),
            Mode::Scalar => false,
        }
    }

    /// A request for one particular container shape.
    fn typed<V: Visitor<'de>>(&mut self, wanted: Mode, what: &str, visitor: V) -> Result<V::Value, SimError> {
        self.requested_shape = Some(wanted);
        if self.typed_requests && self.mode != Mode::Scalar && self.mode != wanted {
            self.log.byte(0xE8);
            self.sig.byte(0xE8);
            return Err(SimError { kind: ErrKind::InvalidType, msg: format!("invalid type: the record is stored as {:?}, the visitor's owner asked for {what}", self.mode) });
        }
        self.drive(visitor)
    }

    fn drive<V: Visitor<'de>>(&mut self, visitor: V) -> Result<V::Value, SimError> {
        let r = match self.mode {
            Mode::Seq => visitor.visit_seq(SeqAcc { run: self }),
            Mode::Map => visitor.visit_map(MapAcc { run: self }),
            Mode::Scalar => match self.entries.first().and_then(|e| e.val.as_ref()) {
                Some(slot) => deliver_slot(slot, visitor),
                None => visitor.visit_unit(),
            },
        };
        match r {
            Ok(v) => {
                if self.strict_end && self.leftover() {
                    self.trailing_rejected = true;
                    self.log.byte(0xE7);
                    self.sig.byte(0xE7);
                    return Err(SimError::new(ErrKind::Trailing));
                }
                self.log.byte(0xA0);
                self.sig.byte(0xA0);
                Ok(v)
            }
            Err(e) => {
                self.log.byte(0xA1);
                self.log.str(&format!("{:?}", e.kind));
                self.sig.byte(0xA1);
                self.sig.byte(errkind_tag(&e.kind));
                Err(e)
            }
        }
    }
}

pub fn errkind_tag(k: &ErrKind) -> u8 {
    match k {
        ErrKind::Io => 1,
        ErrKind::Eof => 2,
        ErrKind::Trailing => 3,
        ErrKind::Protocol => 4,
        ErrKind::UnknownField(_) => 5,
        ErrKind::MissingField(_) => 6,
        ErrKind::DuplicateField(_) => 7,
        ErrKind::InvalidLength(_) => 8,
        ErrKind::InvalidValue => 9,
        ErrKind::InvalidType => 10,
        ErrKind::Custom => 11,
    }
}

fn deliver_slot<'de, V: Visitor<'de>>(slot: &'de Slot, visitor: V) -> Result<V::Value, SimError> {
    match slot {
        Slot::F64(b) => visitor.visit_f64(f64::from_bits(*b)),
        Slot::F32(b) => visitor.visit_f32(f32::from_bits(*b)),
        Slot::U64(b) => visitor.visit_u64(*b),
        Slot::I64(b) => visitor.visit_i64(*b),
        Slot::Bool(b) => visitor.visit_bool(*b),
        Slot::Str(s) => visitor.visit_borrowed_str(s.as_str()),
        Slot::Unit => visitor.visit_unit(),
    }
}

macro_rules! forward_all_to {
    ($target:ident) => {
        serde::forward_to_deserialize_any! {
            bool i8 i16 i32 i64 i128 u8 u16 u32 u64 u128 f32 f64 char str string
            bytes byte_buf option unit unit_struct newtype_struct seq tuple
            tuple_struct map struct enum identifier ignored_any
        }
    };
}

impl<'de> Deserializer<'de> for &mut DeRun<'de> {
    type Error = SimError;
    fn deserialize_any<V: Visitor<'de>>(self, visitor: V) -> Result<V::Value, SimError> {
        self.drive(visitor)
    }
    fn deserialize_struct<V: Visitor<'de>>(
        self,
        name: &'static str,
        fields: &'static [&'static str],
        visitor: V,
    ) -> Result<V::Value, SimError> {
        self.fields_seen = Some(fields);
        self.struct_name_seen = Some(name);
        self.log.str(name);
        for f in fields {
            self.log.str(f);
        }
        if let Some(want) = &self.expect_struct_name {
            if want != name {
                self.log.byte(0xE9);
                self.sig.byte(0xE9);
                return Err(SimError { kind: ErrKind::InvalidType, msg: format!("expected struct `{name}` but the record was written as struct `{want}`") });
            }
        }
        self.drive(visitor)
    }
    fn deserialize_seq<V: Visitor<'de>>(self, visitor: V) -> Result<V::Value, SimError> {
        self.typed(Mode::Seq, "a sequence", visitor)
    }
    fn deserialize_tuple<V: Visitor<'de>>(self, _len: usize, visitor: V) -> Result<V::Value, SimError> {
        self.typed(Mode::Seq, "a tuple", visitor)
    }
    fn deserialize_tuple_struct<V: Visitor<'de>>(self, _name: &'static str, _len: usize, visitor: V) -> Result<V::Value, SimError> {
        self.typed(Mode::Seq, "a tuple struct", visitor)
    }
    fn deserialize_map<V: Visitor<'de>>(self, visitor: V) -> Result<V::Value, SimError> {
        self.typed(Mode::Map, "a map", visitor)
    }
    serde::forward_to_deserialize_any! {
        bool i8 i16 i32 i64 i128 u8 u16 u32 u64 u128 f32 f64 char str string
        bytes byte_buf option unit unit_struct newtype_struct enum identifier ignored_any
    }
    fn is_human_readable(&self) -> bool {
        self.human_readable
    }
}

struct SeqAcc<'a, 'de> {
    run: &'a mut DeRun<'de>,
}

impl<'de> SeqAccess<'de> for SeqAcc<'_, 'de> {
    type Error = SimError;
    fn next_element_seed<T: DeserializeSeed<'de>>(&mut self, seed: T) -> Result<Option<T::Value>, SimError> {
        self.run.gate(b'e')?;
        let run = &mut *self.run;
        if run.pos < run.entries.len() {
            let entries: &'de [Entry] = run.entries;
            if let Some(slot) = entries[run.pos].val.as_ref() {
                run.pos += 1;
                slot.hash_into(&mut run.log);
                run.sig.byte(slot.tag());
                return seed.deserialize(SlotDe { slot }).map(Some);
            }
        }
        run.log.byte(0);
        run.sig.byte(0);
        Ok(None)
    }
    fn size_hint(&self) -> Option<usize> {
        let rem = self.run.entries[self.run.pos.min(self.run.entries.len())..].iter().take_while(|e| e.val.is_some()).count();
        self.run.remaining_hint(rem)
    }
}

struct MapAcc<'a, 'de> {
    run: &'a mut DeRun<'de>,
}

impl<'de> MapAccess<'de> for MapAcc<'_, 'de> {
    type Error = SimError;
    fn next_key_seed<K: DeserializeSeed<'de>>(&mut self, seed: K) -> Result<Option<K::Value>, SimError> {
        self.run.gate(b'k')?;
        let run = &mut *self.run;
        if run.pending_value {
            // the visitor skipped a value: a real format would be out of sync
            run.protocol_violations += 1;
            run.pending_value = false;
            run.pos += 1;
        }
        while run.pos < run.entries.len() && !run.presented(&run.entries[run.pos]) {
            run.pos += 1;
            run.log.byte(0x5C);
            run.sig.byte(0x5C);
        }
        if run.pos < run.entries.len() {
            let entries: &'de [Entry] = run.entries;
            let entry = &entries[run.pos];
            run.pending_value = true;
            run.log.str(&entry.key);
            run.log.byte(keykind_tag(entry.kind));
            run.sig.byte(keykind_tag(entry.kind));
            run.sig.byte(match entry.key.as_str() {
                "hi" => 1,
                "lo" => 2,
                _ => 3,
            });
            return seed.deserialize(KeyDe { entry }).map(Some);
        }
        run.log.byte(0);
        run.sig.byte(0);
        Ok(None)
    }
    fn next_value_seed<T: DeserializeSeed<'de>>(&mut self, seed: T) -> Result<T::Value, SimError> {
        self.run.gate(b'v')?;
        let run = &mut *self.run;
        if !run.pending_value {
            run.protocol_violations += 1;
            return Err(SimError::new(ErrKind::Protocol));
        }
        run.pending_value = false;
        let entries: &'de [Entry] = run.entries;
        let entry = &entries[run.pos];
        run.pos += 1;
        match entry.val.as_ref() {
            Some(slot) => {
                slot.hash_into(&mut run.log);
                run.sig.byte(slot.tag());
                seed.deserialize(SlotDe { slot })
            }
            None => {
                run.log.byte(0xEF);
                run.sig.byte(0xEF);
                Err(SimError::new(ErrKind::Eof))
            }
        }
    }
    fn size_hint(&self) -> Option<usize> {
        self.run.remaining_hint(self.run.entries.len().saturating_sub(self.run.pos))
    }
}

pub fn keykind_tag(k: KeyKind) -> u8 {
    match k {
        KeyKind::Str => 1,
        KeyKind::Borrowed => 2,
        KeyKind::Owned => 3,
        KeyKind::Bytes => 4,
        KeyKind::Index(_) => 5,
    }
}

struct SlotDe<'de> {
    slot: &'de Slot,
}

impl<'de> Deserializer<'de> for SlotDe<'de> {
    type Error = SimError;
    fn deserialize_any<V: Visitor<'de>>(self, visitor: V) -> Result<V::Value, SimError> {
        deliver_slot(self.slot, visitor)
    }
    serde::forward_to_deserialize_any! {
        bool i8 i16 i32 i64 i128 u8 u16 u32 u64 u128 f32 f64 char str string
        bytes byte_buf unit unit_struct newtype_struct seq tuple
        tuple_struct map struct enum identifier ignored_any
    }
    fn deserialize_option<V: Visitor<'de>>(self, visitor: V) -> Result<V::Value, SimError> {
        match self.slot {
            Slot::Unit => visitor.visit_none(),
            _ => visitor.visit_some(self),
        }
    }
}

struct KeyDe<'de> {
    entry: &'de Entry,
}

impl<'de> Deserializer<'de> for KeyDe<'de> {
    type Error = SimError;
    fn deserialize_any<V: Visitor<'de>>(self, visitor: V) -> Result<V::Value, SimError> {
        match self.entry.kind {
            KeyKind::Str => {
                // a transient (non-'de) string, as a streaming format hands out
                let tmp: String = self.entry.key.clone();
                visitor.visit_str(&tmp)
            }
            KeyKind::Borrowed => visitor.visit_borrowed_str(self.entry.key.as_str()),
            KeyKind::Owned => visitor.visit_string(self.entry.key.clone()),
            KeyKind::Bytes => visitor.visit_bytes(self.entry.key.as_bytes()),
            KeyKind::Index(i) => visitor.visit_u64(i),
        }
    }
    forward_all_to!(deserialize_any);
}

// ---------------------------------------------------------------- serializer

#[derive(Clone, Debug, PartialEq, Serialize, Deserialize)]
pub enum SerEvent {
    Struct { name: String, len: usize },
    Field(String),
    Prim(Slot),
    End,
    /// any other compound start (seq, tuple, map, variants...)
    Other(String),
    Elem,
    Key,
    Value,
}

pub struct SerRun {
    pub fault: Option<CallFault>,
    pub human_readable: bool,
    pub events: Vec<SerEvent>,
    pub calls: usize,
    pub fired: bool,
    dead: bool,
    pub calls_after_refusal: u32,
    pub log: Hash64,
    pub sig: Hash64,
}

impl SerRun {
    pub fn new(fault: Option<CallFault>, human_readable: bool) -> Self {
        SerRun {
            fault,
            human_readable,
            events: Vec::new(),
            calls: 0,
            fired: false,
            dead: false,
            calls_after_refusal: 0,
            log: Hash64::default(),
            sig: Hash64::default(),
        }
    }
    fn gate(&mut self, what: u8) -> Result<(), SimError> {
        let idx = self.calls;
        self.calls += 1;
        if self.calls as u64 > STEP_CAP {
            panic!("simulator step cap exceeded in serializer");
        }
        self.log.byte(what);
        self.sig.byte(what);
        if self.fired {
            self.calls_after_refusal += 1;
        }
        let fail = self.dead || matches!(self.fault, Some(f) if f.at == idx);
        if fail {
            self.fired = true;
            if matches!(self.fault, Some(f) if f.sticky) {
                self.dead = true;
            }
            self.log.byte(0xEE);
            self.sig.byte(0xEE);
            return Err(SimError::new(ErrKind::Io));
        }
        Ok(())
    }
    fn prim(&mut self, s: Slot) -> Result<(), SimError> {
        s.hash_into(&mut self.log);
        self.sig.byte(s.tag());
        self.events.push(SerEvent::Prim(s));
        Ok(())
    }
}

pub struct Compound<'a> {
    run: &'a mut SerRun,
}

macro_rules! prim_method {
    ($name:ident, $ty:ty, $conv:expr) => {
        fn $name(self, v: $ty) -> Result<(), SimError> {
            #[allow(clippy::redundant_closure_call)]
            self.prim($conv(v))
        }
    };
}

impl<'a> ser::Serializer for &'a mut SerRun {
    type Ok = ();
    type Error = SimError;
    type SerializeSeq = Compound<'a>;
    type SerializeTuple = Compound<'a>;
    type SerializeTupleStruct = Compound<'a>;
    type SerializeTupleVariant = Compound<'a>;
    type SerializeMap = Compound<'a>;
    type SerializeStruct = Compound<'a>;
    type SerializeStructVariant = Compound<'a>;

    prim_method!(serialize_bool, bool, Slot::Bool);
    prim_method!(serialize_i8, i8, |v| Slot::I64(v as i64));
    prim_method!(serialize_i16, i16, |v| Slot::I64(v as i64));
    prim_method!(serialize_i32, i32, |v| Slot::I64(v as i64));
    prim_method!(serialize_i64, i64, Slot::I64);
    prim_method!(serialize_u8, u8, |v| Slot::U64(v as u64));
    prim_method!(serialize_u16, u16, |v| Slot::U64(v as u64));
    prim_method!(serialize_u32, u32, |v| Slot::U64(v as u64));
    prim_method!(serialize_u64, u64, Slot::U64);
    prim_method!(serialize_f32, f32, |v: f32| Slot::F32(v.to_bits()));
    prim_method!(serialize_f64, f64, |v: f64| Slot::F64(v.to_bits()));
    prim_method!(serialize_char, char, |v: char| Slot::Str(v.to_string()));
    prim_method!(serialize_str, &str, |v: &str| Slot::Str(v.to_string()));
    prim_method!(serialize_bytes, &[u8], |v: &[u8]| Slot::Str(format!("bytes:{:02x?}", v)));

    fn serialize_none(self) -> Result<(), SimError> {
        self.prim(Slot::Unit)
    }
    fn serialize_some<T: ?Sized + SerTrait>(self, value: &T) -> Result<(), SimError> {
        value.serialize(self)
    }
    fn serialize_unit(self) -> Result<(), SimError> {
        self.prim(Slot::Unit)
    }
    fn serialize_unit_struct(self, _name: &'static str) -> Result<(), SimError> {
        self.prim(Slot::Unit)
    }
    fn serialize_unit_variant(self, _n: &'static str, _i: u32, variant: &'static str) -> Result<(), SimError> {
        self.prim(Slot::Str(variant.to_string()))
    }
    fn serialize_newtype_struct<T: ?Sized + SerTrait>(self, name: &'static str, value: &T) -> Result<(), SimError> {
        self.events.push(SerEvent::Other(format!("newtype_struct {name}")));
        value.serialize(self)
    }
    fn serialize_newtype_variant<T: ?Sized + SerTrait>(
        self,
        name: &'static str,
        _i: u32,
        variant: &'static str,
        value: &T,
    ) -> Result<(), SimError> {
        self.events.push(SerEvent::Other(format!("newtype_variant {name}::{variant}")));
        value.serialize(self)
    }
    fn serialize_seq(self, len: Option<usize>) -> Result<Compound<'a>, SimError> {
        self.gate(b'S')?;
        self.events.push(SerEvent::Other(format!("seq {len:?}")));
        Ok(Compound { run: self })
    }
    fn serialize_tuple(self, len: usize) -> Result<Compound<'a>, SimError> {
        self.gate(b'S')?;
        self.events.push(SerEvent::Other(format!("tuple {len}")));
        Ok(Compound { run: self })
    }
    fn serialize_tuple_struct(self, name: &'static str, len: usize) -> Result<Compound<'a>, SimError> {
        self.gate(b'S')?;
        self.events.push(SerEvent::Other(format!("tuple_struct {name} {len}")));
        Ok(Compound { run: self })
    }
    fn serialize_tuple_variant(self, name: &'static str, _i: u32, variant: &'static str, len: usize) -> Result<Compound<'a>, SimError> {
        self.gate(b'S')?;
        self.events.push(SerEvent::Other(format!("tuple_variant {name}::{variant} {len}")));
        Ok(Compound { run: self })
    }
    fn serialize_map(self, len: Option<usize>) -> Result<Compound<'a>, SimError> {
        self.gate(b'S')?;
        self.events.push(SerEvent::Other(format!("map {len:?}")));
        Ok(Compound { run: self })
    }
    fn serialize_struct(self, name: &'static str, len: usize) -> Result<Compound<'a>, SimError> {
        self.gate(b'S')?;
        self.log.str(name);
        self.log.u64(len as u64);
        self.events.push(SerEvent::Struct { name: name.to_string(), len });
        Ok(Compound { run: self })
    }
    fn serialize_struct_variant(self, name: &'static str, _i: u32, variant: &'static str, len: usize) -> Result<Compound<'a>, SimError> {
        self.gate(b'S')?;
        self.events.push(SerEvent::Other(format!("struct_variant {name}::{variant} {len}")));
        Ok(Compound { run: self })
    }
    fn is_human_readable(&self) -> bool {
        self.human_readable
    }
}

impl Compound<'_> {
    fn elem<T: ?Sized + SerTrait>(&mut self, ev: SerEvent, value: &T) -> Result<(), SimError> {
        self.run.gate(b'F')?;
        self.run.events.push(ev);
        value.serialize(&mut *self.run)
    }
    fn finish(self) -> Result<(), SimError> {
        self.run.gate(b'E')?;
        self.run.events.push(SerEvent::End);
        Ok(())
    }
}

impl ser::SerializeStruct for Compound<'_> {
    type Ok = ();
    type Error = SimError;
    fn serialize_field<T: ?Sized + SerTrait>(&mut self, key: &'static str, value: &T) -> Result<(), SimError> {
        self.run.log.str(key);
        self.elem(SerEvent::Field(key.to_string()), value)
    }
    fn end(self) -> Result<(), SimError> {
        self.finish()
    }
}
impl ser::SerializeStructVariant for Compound<'_> {
    type Ok = ();
    type Error = SimError;
    fn serialize_field<T: ?Sized + SerTrait>(&mut self, key: &'static str, value: &T) -> Result<(), SimError> {
        self.elem(SerEvent::Field(key.to_string()), value)
    }
    fn end(self) -> Result<(), SimError> {
        self.finish()
    }
}
impl ser::SerializeSeq for Compound<'_> {
    type Ok = ();
    type Error = SimError;
    fn serialize_element<T: ?Sized + SerTrait>(&mut self, value: &T) -> Result<(), SimError> {
        self.elem(SerEvent::Elem, value)
    }
    fn end(self) -> Result<(), SimError> {
        self.finish()
    }
}
impl ser::SerializeTuple for Compound<'_> {
    type Ok = ();
    type Error = SimError;
    fn serialize_element<T: ?Sized + SerTrait>(&mut self, value: &T) -> Result<(), SimError> {
        self.elem(SerEvent::Elem, value)
    }
    fn end(self) -> Result<(), SimError> {
        self.finish()
    }
}
impl ser::SerializeTupleStruct for Compound<'_> {
    type Ok = ();
    type Error = SimError;
    fn serialize_field<T: ?Sized + SerTrait>(&mut self, value: &T) -> Result<(), SimError> {
        self.elem(SerEvent::Elem, value)
    }
    fn end(self) -> Result<(), SimError> {
        self.finish()
    }
}
impl ser::SerializeTupleVariant for Compound<'_> {
    type Ok = ();
    type Error = SimError;
    fn serialize_field<T: ?Sized + SerTrait>(&mut self, value: &T) -> Result<(), SimError> {
        self.elem(SerEvent::Elem, value)
    }
    fn end(self) -> Result<(), SimError> {
        self.finish()
    }
}
impl ser::SerializeMap for Compound<'_> {
    type Ok = ();
    type Error = SimError;
    fn serialize_key<T: ?Sized + SerTrait>(&mut self, key: &T) -> Result<(), SimError> {
        self.elem(SerEvent::Key, key)
    }
    fn serialize_value<T: ?Sized + SerTrait>(&mut self, value: &T) -> Result<(), SimError> {
        self.elem(SerEvent::Value, value)
    }
    fn end(self) -> Result<(), SimError> {
        self.finish()
    }
}
