#![recursion_limit = "512"]
//! tfsim — deterministic simulation with fault injection for twofloat's
//! text-output and serde seams (property C20). See /verif/DESIGN.md.
//!
//! exit 0: property held on everything explored; exit 1: `VIOLATION` line(s);
//! exit 2: harness error (self-check failed, models disagree, replay not
//! reproducible).

mod common;
mod deleg;
mod fmtleg;
mod fmtspecs;
mod history;
mod iosim;
mod jsonleg;
mod prng;
mod serleg;
mod simformat;
mod sweep;
mod tomlleg;
mod values;
mod vocab;

use common::*;
use prng::{run_seed, Hash64, Rng};
use serde::{Deserialize, Serialize};
use std::collections::{BTreeMap, BTreeSet};
use std::path::{Path, PathBuf};
use std::sync::atomic::{AtomicU64, Ordering};
use std::sync::Arc;
use std::time::Instant;

pub const DEFAULT_SEED: u64 = 20260926;
pub const PROPERTY: &str = "C20";

#[derive(Clone, Debug, Serialize, Deserialize, PartialEq)]
#[serde(tag = "leg")]
pub enum Case {
    Fmt(fmtleg::FmtCase),
    Ser(serleg::SerCase),
    De(deleg::DeCase),
    JsonWrite(jsonleg::JsonWriteCase),
    JsonRead(jsonleg::JsonReadCase),
    Toml(tomlleg::TomlCase),
}

pub const LEG_NAMES: [&str; 6] = ["Fmt", "Ser", "De", "JsonWrite", "JsonRead", "Toml"];

impl Case {
    pub fn leg(&self) -> usize {
        match self {
            Case::Fmt(_) => 0,
            Case::Ser(_) => 1,
            Case::De(_) => 2,
            Case::JsonWrite(_) => 3,
            Case::JsonRead(_) => 4,
            Case::Toml(_) => 5,
        }
    }
    pub fn execute(&self) -> LegReport {
        match self {
            Case::Fmt(c) => fmtleg::execute(c),
            Case::Ser(c) => serleg::execute(c),
            Case::De(c) => deleg::execute(c),
            Case::JsonWrite(c) => jsonleg::execute_write(c),
            Case::JsonRead(c) => jsonleg::execute_read(c),
            Case::Toml(c) => tomlleg::execute(c),
        }
    }
    pub fn shrink(&self) -> Vec<Case> {
        match self {
            Case::Fmt(c) => fmtleg::shrink(c).into_iter().map(Case::Fmt).collect(),
            Case::Ser(c) => serleg::shrink(c).into_iter().map(Case::Ser).collect(),
            Case::De(c) => deleg::shrink(c).into_iter().map(Case::De).collect(),
            Case::JsonWrite(c) => jsonleg::shrink_write(c).into_iter().map(Case::JsonWrite).collect(),
            Case::JsonRead(c) => jsonleg::shrink_read(c).into_iter().map(Case::JsonRead).collect(),
            Case::Toml(c) => tomlleg::shrink(c).into_iter().map(Case::Toml).collect(),
        }
    }
}

/// One checked operation together with the history performed before it.
#[derive(Clone, Debug, PartialEq)]
pub struct Step {
    pub history: Vec<history::HistOp>,
    pub case: Case,
    /// run this step on a fresh thread with a stack of this many KiB (the batch workers have
    /// 16 MiB; callers of the crate may have far less)
    pub stack_kib: Option<u32>,
}

impl Step {
    pub fn plain(case: Case) -> Self {
        Step { history: Vec::new(), case, stack_kib: None }
    }
    /// Perform the history (results ignored, panics reported), then the checked operation —
    /// on a small-stack thread if the step says so.
    pub fn execute(&self) -> LegReport {
        let deep = matches!(&self.case, Case::Fmt(c) if c.sink.depth() > 4);
        match self.stack_kib.filter(|_| !deep) {
            None => self.execute_here(),
            Some(kib) => {
                let me = Step { stack_kib: None, ..self.clone() };
                match std::thread::Builder::new().stack_size((kib as usize) << 10).spawn(move || me.execute_here()) {
                    Ok(h) => match h.join() {
                        Ok(mut rep) => {
                            rep.probes.hit("step_on_small_stack_thread");
                            rep
                        }
                        Err(_) => {
                            let mut rep = LegReport::default();
                            rep.violations.push(viol("HARNESS", "small-stack thread died outside a guarded region"));
                            rep
                        }
                    },
                    Err(_) => self.execute_here(),
                }
            }
        }
    }

    fn execute_here(&self) -> LegReport {
        let mut pre = Vec::new();
        let mut hist_log = Vec::new();
        for op in &self.history {
            match history::perform(op) {
                Ok(digest) => hist_log.push(digest),
                Err(msg) => match msg.strip_prefix("HISTORY-VIOLATION ") {
                    Some(rest) => {
                        let (class, detail) = rest.split_once(": ").unwrap_or((rest, ""));
                        pre.push(viol(class, format!("in history operation {:?}: {detail}", op)));
                    }
                    None => pre.push(viol("PANIC", format!("history operation {:?} panicked: {msg}", op))),
                },
            }
        }
        let mut rep = self.case.execute();
        for d in hist_log {
            rep.log.u64(d);
        }
        if !self.history.is_empty() {
            rep.probes.hit("history_before_checked_operation");
            rep.probes.add("history_operations", self.history.len() as u64);
            rep.sig.u64(self.history.len() as u64);
        }
        pre.extend(rep.violations);
        rep.violations = pre;
        rep
    }
    pub fn shrink(&self) -> Vec<Step> {
        let mut out = Vec::new();
        if !self.history.is_empty() {
            out.push(Step { history: Vec::new(), case: self.case.clone(), stack_kib: self.stack_kib });
            for i in 0..self.history.len() {
                let mut h = self.history.clone();
                h.remove(i);
                out.push(Step { history: h, case: self.case.clone(), stack_kib: self.stack_kib });
            }
        }
        if self.stack_kib.is_some() {
            out.push(Step { stack_kib: None, ..self.clone() });
        }
        for c in self.case.shrink() {
            out.push(Step { history: self.history.clone(), case: c, stack_kib: self.stack_kib });
        }
        out
    }
}

/// All steps of run `index` under base seed `base`: a pure function of the two.
pub fn generate_run(base: u64, index: u64, st: &mut values::GenStats) -> (values::Val, Vec<Step>) {
    let mut r = Rng::new(run_seed(base, index));
    let v = values::gen_value(&mut r, st);
    let o = values::gen_value(&mut r, st);
    let other = (o.hi, o.lo);
    let cases = vec![
        Case::Fmt(fmtleg::generate(&mut r, v.hi, v.lo)),
        Case::Ser(serleg::generate(&mut r, v.hi, v.lo)),
        Case::De(deleg::generate(&mut r, v.hi, v.lo, other)),
        Case::JsonWrite(jsonleg::generate_write(&mut r, v.hi, v.lo)),
        Case::JsonRead(jsonleg::generate_read(&mut r, v.hi, v.lo, other)),
        Case::Toml(tomlleg::generate(&mut r, v.hi, v.lo, other)),
    ];
    // histories are drawn after all cases so that adding them did not disturb the cases' own draws
    let steps = cases
        .into_iter()
        .map(|case| {
            let spec = match &case {
                Case::Fmt(c) => Some((c.tr, c.plus, c.prec)),
                _ => None,
            };
            let history = history::generate(&mut r, case.leg(), v.hi, v.lo, other, spec);
            let stack_kib = if r.chance(1, 300) { Some(*r.pick(&[256u32, 2048])) } else { None };
            // a deeply re-entrant sink needs the stack its depth asks for: keep it off the small stacks
            let stack_kib = match &case {
                Case::Fmt(c) if c.sink.depth() > 4 => None,
                _ => stack_kib,
            };
            Step { history, case, stack_kib }
        })
        .collect();
    (v, steps)
}

// ---------------------------------------------------------------- known findings

#[derive(Clone, Debug, Serialize, Deserialize, Default)]
pub struct KnownFindings {
    #[serde(default)]
    pub findings: Vec<Finding>,
    #[serde(default)]
    pub fixed: Vec<String>,
}

#[derive(Clone, Debug, Serialize, Deserialize)]
pub struct Finding {
    pub property: String,
    pub class: String,
    pub leg: String,
    /// the violation's detail text must contain this
    pub detail_contains: String,
    pub what: String,
}

impl KnownFindings {
    fn load(path: &Path) -> Result<Self, String> {
        match std::fs::read_to_string(path) {
            Ok(s) => serde_json::from_str(&s).map_err(|e| format!("{}: {e}", path.display())),
            Err(e) if e.kind() == std::io::ErrorKind::NotFound => Ok(Self::default()),
            Err(e) => Err(format!("{}: {e}", path.display())),
        }
    }
    fn matches(&self, leg: usize, v: &Violation) -> Option<usize> {
        self.findings
            .iter()
            .position(|f| f.property == PROPERTY && f.class == v.class && f.leg == LEG_NAMES[leg] && v.detail.contains(&f.detail_contains))
    }
}

// ---------------------------------------------------------------- batch

#[derive(Default)]
struct BatchStats {
    runs: u64,
    sweep_values: u64,
    sweep_cases: u64,
    lattice_cases: u64,
    legs: u64,
    legs_faulted: u64,
    legs_fault_free: u64,
    steps: u64,
    probes: Counters,
    probes_fault_free: Counters,
    faults_fired: Counters,
    vclass: [u64; values::N_VCLASS],
    gen: values::GenStats,
    sigs_faulted: BTreeSet<u64>,
    sigs_faulted_per_leg: [u64; 6],
    sigs_all: BTreeSet<u64>,
    digest: u64,
    known_hits: BTreeMap<usize, u64>,
    samples: BTreeMap<(usize, bool), (u64, serde_json::Value)>,
    /// lowest failing run: index -> (leg, case, violations)
    first_fail: Option<(u64, Vec<(usize, Step, Vec<Violation>)>)>,
    harness_errors: Vec<String>,
}

impl BatchStats {
    fn merge(&mut self, o: BatchStats) {
        self.runs += o.runs;
        self.sweep_values += o.sweep_values;
        self.sweep_cases += o.sweep_cases;
        self.lattice_cases += o.lattice_cases;
        self.legs += o.legs;
        self.legs_faulted += o.legs_faulted;
        self.legs_fault_free += o.legs_fault_free;
        self.steps += o.steps;
        self.probes.merge(&o.probes);
        self.probes_fault_free.merge(&o.probes_fault_free);
        self.faults_fired.merge(&o.faults_fired);
        for i in 0..values::N_VCLASS {
            self.vclass[i] += o.vclass[i];
        }
        self.gen.discards += o.gen.discards;
        self.gen.api_invalid += o.gen.api_invalid;
        self.gen.api_nonfinite += o.gen.api_nonfinite;
        self.gen.api_panicked += o.gen.api_panicked;
        if self.gen.api_first_panic.is_none() {
            self.gen.api_first_panic = o.gen.api_first_panic.clone();
        }
        // per-leg counts are recomputed from the merged set (a trace may be new to one worker only)
        let before = self.sigs_faulted.len();
        let _ = before;
        self.sigs_faulted.extend(o.sigs_faulted);
        for l in 0..6 {
            self.sigs_faulted_per_leg[l] = self.sigs_faulted.iter().filter(|s| (*s >> 60) as usize == l).count() as u64;
        }
        self.sigs_all.extend(o.sigs_all);
        self.digest = self.digest.wrapping_add(o.digest);
        for (k, v) in o.known_hits {
            *self.known_hits.entry(k).or_insert(0) += v;
        }
        for (k, v) in o.samples {
            match self.samples.get(&k) {
                Some((i, _)) if *i <= v.0 => {}
                _ => {
                    self.samples.insert(k, v);
                }
            }
        }
        match (&self.first_fail, o.first_fail) {
            (_, None) => {}
            (None, Some(f)) => self.first_fail = Some(f),
            (Some((i, _)), Some(f)) => {
                if f.0 < *i {
                    self.first_fail = Some(f);
                }
            }
        }
        self.harness_errors.extend(o.harness_errors);
    }
}

#[derive(Clone, Copy, PartialEq, Eq)]
enum Kind {
    Random,
    Sweep,
    ThinLattice,
}

impl Kind {
    fn name(self) -> &'static str {
        match self {
            Kind::Random => "random",
            Kind::Sweep => "sweep",
            Kind::ThinLattice => "thin_lattice",
        }
    }
    fn parse(s: &str) -> Option<Kind> {
        match s {
            "random" => Some(Kind::Random),
            "sweep" => Some(Kind::Sweep),
            "thin_lattice" => Some(Kind::ThinLattice),
            _ => None,
        }
    }
}

fn steps_of(kind: Kind, base: u64, index: u64, gen: &mut values::GenStats) -> (values::Val, Vec<Step>) {
    match kind {
        Kind::Random => generate_run(base, index, gen),
        Kind::Sweep => {
            let (v, cs) = sweep::sweep_cases(base, index, gen);
            (v, cs.into_iter().map(Step::plain).collect())
        }
        Kind::ThinLattice => {
            let (v, cs) = sweep::thin_lattice_cases(base, index, gen);
            (v, cs.into_iter().map(Step::plain).collect())
        }
    }
}

/// A history expressed as a window of whole runs executed in order on one
/// thread of a fresh process: the reproduction of last resort for a violation
/// that depends on state left behind by earlier operations.
#[derive(Clone, Debug, Serialize, Deserialize, PartialEq)]
struct SequenceSpec {
    base_seed: u64,
    kind: String,
    from: u64,
    to: u64,
    /// execute only every `stride`-th run starting at `from` (the schedule of one batch worker:
    /// state kept per thread is left by exactly those runs); 1 = every run
    #[serde(default = "one")]
    stride: u64,
}

fn one() -> u64 {
    1
}

/// Outcome of executing a window of runs under a per-run deadline.
enum SeqOutcome {
    Fail(u64, usize, Violation),
    Clean,
    /// run `i` did not complete within the deadline
    Hang(u64),
    /// the executing thread died outside a guarded region
    Crashed,
}

/// Execute runs `from..=to` in order on one (big-stack) thread, each under the hang deadline;
/// first violation not covered by a known finding.
fn run_sequence(spec: &SequenceSpec, known: &KnownFindings) -> SeqOutcome {
    let Some(kind) = Kind::parse(&spec.kind) else { return SeqOutcome::Crashed };
    let (tx, rx) = std::sync::mpsc::channel::<(u64, Option<(usize, Violation)>)>();
    let (spec2, known2) = (spec.clone(), known.clone());
    let handle = std::thread::Builder::new().stack_size(16 << 20).spawn(move || {
        let mut gen = values::GenStats::default();
        let stride = spec2.stride.max(1);
        let mut i = spec2.from;
        while i <= spec2.to {
            let (_, steps) = steps_of(kind, spec2.base_seed, i, &mut gen);
            let mut found = None;
            'steps: for step in steps {
                let leg = step.case.leg();
                for v in step.execute().violations {
                    if v.class != "HARNESS" && known2.matches(leg, &v).is_none() {
                        found = Some((leg, v));
                        break 'steps;
                    }
                }
            }
            let stop = found.is_some();
            if tx.send((i, found)).is_err() || stop {
                return;
            }
            i += stride;
        }
    });
    if handle.is_err() {
        return SeqOutcome::Crashed;
    }
    let mut expected = spec.from;
    loop {
        // a sweep "run" holds tens of thousands of cases: allow it proportionally more time
        let limit = hang_secs() * if kind == Kind::Random { 1 } else { 20 };
        match rx.recv_timeout(std::time::Duration::from_secs(limit)) {
            Ok((i, Some((leg, v)))) => return SeqOutcome::Fail(i, leg, v),
            Ok((i, None)) => {
                expected = i + spec.stride.max(1);
                if expected > spec.to {
                    return SeqOutcome::Clean;
                }
            }
            Err(std::sync::mpsc::RecvTimeoutError::Timeout) => return SeqOutcome::Hang(expected),
            Err(std::sync::mpsc::RecvTimeoutError::Disconnected) => {
                return if expected > spec.to { SeqOutcome::Clean } else { SeqOutcome::Crashed };
            }
        }
    }
}

/// Progress of one worker, read by the watchdog.
#[derive(Default)]
struct Beat {
    index: AtomicU64,
    ordinal: AtomicU64,
    ticks: AtomicU64,
    done: std::sync::atomic::AtomicBool,
}

fn hang_secs() -> u64 {
    std::env::var("TFSIM_HANG_SECS").ok().and_then(|s| s.parse().ok()).unwrap_or(60)
}

/// Global progress counters so that a watchdog report can state what was covered.
static RUNS_DONE: AtomicU64 = AtomicU64::new(0);
static STEPS_DONE: AtomicU64 = AtomicU64::new(0);

/// A worker has not finished a single step for `hang_secs()`: code under test hangs. Report it as a
/// violation (class HANG) and end the process. The replay is the single run as a window (kind,
/// base seed, index) — regenerating the run's steps here could itself hang, because generation
/// executes the code under test to count seam events — plus, when the stuck step is known and can
/// be regenerated within a short deadline, that step for readability.
fn report_hang(kind: Kind, base: u64, index: u64, ordinal: usize, out_dir: &Path, label: &Option<String>, tier: &str, seed: u64) -> ! {
    let lab = label.as_deref().map(|l| format!("-{l}")).unwrap_or_default();
    let replay_dir = out_dir.join("replays");
    let _ = std::fs::create_dir_all(&replay_dir);
    // try to name the stuck step, under a deadline
    let step: Option<Step> = if ordinal == usize::MAX {
        None
    } else {
        let (tx, rx) = std::sync::mpsc::channel();
        let _ = std::thread::Builder::new().stack_size(16 << 20).spawn(move || {
            let mut gen = values::GenStats::default();
            let (_, steps) = steps_of(kind, base, index, &mut gen);
            let _ = tx.send(steps.into_iter().nth(ordinal));
        });
        rx.recv_timeout(std::time::Duration::from_secs(10)).ok().flatten()
    };
    let where_ = if ordinal == usize::MAX { "while the run's cases were being generated (generation executes the code under test to place faults)".to_string() } else { format!("in step {ordinal} of the run") };
    let detail = format!("an operation did not complete within {} s {where_} (kind {}, run {index})", hang_secs(), kind.name());
    let placeholder = Case::Ser(serleg::SerCase { hi: 1.0f64.to_bits(), lo: 0, fault: None, human_readable: true });
    let (leg_name, case, history) = match &step {
        Some(st) => (LEG_NAMES[st.case.leg()], st.case.clone(), st.history.clone()),
        None => ("Run", placeholder, Vec::new()),
    };
    let rf = ReplayFile {
        property: PROPERTY.into(),
        class: "HANG".into(),
        detail: detail.clone(),
        base_seed: base,
        run_index: index,
        minimised: false,
        shrink_steps: 0,
        config_label: label.clone(),
        stack_kib: None,
        on_main_thread: false,
        history: history.clone(),
        case: case.clone(),
        delivered_record: None,
        delivered_bytes: None,
        sequence: Some(SequenceSpec { base_seed: base, kind: kind.name().into(), from: index, to: index, stride: 1 }),
        original_history: history,
        original_case: case,
    };
    let path = replay_dir.join(format!("{PROPERTY}{lab}-{base}-{index}-{leg_name}-HANG.json"));
    let _ = std::fs::write(&path, serde_json::to_string_pretty(&rf).unwrap() + "\n");
    // an honest (partial) evidence file: the batch did not finish
    if label.is_none() {
        write_abort_evidence(out_dir, tier, seed, &format!("The run was ended by the simulator's watchdog: {detail}. Only what had started by then is counted; the usual coverage breakdown (distinct traces, probes, fault kinds) is not available for an aborted batch."), 1);
    }
    println!("violation class=HANG leg={leg_name} base_seed={base} run={index} shrink_steps=0");
    println!("  {detail}");
    println!("VIOLATION property={PROPERTY} replay={}", path.display());
    std::process::exit(1);
}

fn run_one(base: u64, index: u64, known: &KnownFindings, st: &mut BatchStats, stop_after: &AtomicU64, kind: Kind, beat: &Beat) {
    beat.index.store(index, Ordering::SeqCst);
    beat.ordinal.store(u64::MAX, Ordering::SeqCst);
    beat.ticks.fetch_add(1, Ordering::SeqCst);
    RUNS_DONE.fetch_add(1, Ordering::Relaxed);
    let (val, cases): (values::Val, Vec<Step>) = steps_of(kind, base, index, &mut st.gen);
    let sweep = kind != Kind::Random;
    if kind == Kind::ThinLattice {
        st.lattice_cases += cases.len() as u64;
    }
    if kind == Kind::Sweep {
        st.sweep_values += 1;
        st.sweep_cases += cases.len() as u64;
    }
    st.runs += 1;
    st.vclass[val.class as usize] += 1;
    let mut run_hash = Hash64::default();
    run_hash.u64(index);
    let mut fails: Vec<(usize, Step, Vec<Violation>)> = Vec::new();
    for (ordinal, step) in cases.into_iter().enumerate() {
        beat.ordinal.store(ordinal as u64, Ordering::SeqCst);
        beat.ticks.fetch_add(1, Ordering::SeqCst);
        STEPS_DONE.fetch_add(1, Ordering::Relaxed);
        let leg = step.case.leg();
        let rep = step.execute();
        st.legs += 1;
        st.steps += rep.steps;
        if rep.faulted {
            st.legs_faulted += 1;
            st.probes.merge(&rep.probes);
            if st.sigs_faulted.insert((rep.sig.finish() & ((1u64 << 60) - 1)) | (leg as u64) << 60) {
                st.sigs_faulted_per_leg[leg] += 1;
            }
        } else {
            st.legs_fault_free += 1;
            st.probes_fault_free.merge(&rep.probes);
        }
        st.sigs_all.insert((rep.sig.finish() & ((1u64 << 60) - 1)) | (leg as u64) << 60);
        st.faults_fired.merge(&rep.faults_fired);
        run_hash.u64(rep.log.finish());
        run_hash.u64(rep.violations.len() as u64);
        if index < 4096 && !sweep {
            let key = (leg, rep.faulted && !rep.faults_fired.0.is_empty());
            if st.samples.get(&key).map(|(i, _)| index < *i).unwrap_or(true) {
                st.samples.insert(
                    key,
                    (
                        index,
                        serde_json::json!({
                            "run_index": index,
                            "value_class": values::VCLASS_NAMES[val.class as usize],
                            "history": serde_json::to_value(&step.history).unwrap_or(serde_json::Value::Null),
                            "case": serde_json::to_value(&step.case).unwrap_or(serde_json::Value::Null),
                            "faults_fired": rep.faults_fired.0.keys().collect::<Vec<_>>(),
                            "seam_events": rep.steps,
                            "outcome": rep.outcome,
                        }),
                    ),
                );
            }
        }
        if !rep.violations.is_empty() {
            let mut unknown = Vec::new();
            for v in rep.violations {
                if v.class == "HARNESS" {
                    st.harness_errors.push(format!("run {index} leg {}: {}", LEG_NAMES[leg], v.detail));
                    continue;
                }
                match known.matches(leg, &v) {
                    Some(k) => *st.known_hits.entry(k).or_insert(0) += 1,
                    None => unknown.push(v),
                }
            }
            if !unknown.is_empty() {
                fails.push((leg, step, unknown));
            }
        }
    }
    st.digest = st.digest.wrapping_add(run_hash.finish());
    if !fails.is_empty() {
        stop_after.fetch_min(index, Ordering::SeqCst);
        if st.first_fail.as_ref().map(|(i, _)| index < *i).unwrap_or(true) {
            st.first_fail = Some((index, fails));
        }
    }
}

fn run_batch(base: u64, runs: u64, workers: usize, known: &KnownFindings) -> BatchStats {
    run_batch_kind(base, runs, workers, known, Kind::Random)
}

thread_local! {
    /// set while the main thread itself executes runs (main-thread slice)
    static ON_MAIN_THREAD: std::cell::Cell<bool> = const { std::cell::Cell::new(false) };
}

/// Where a hang report is written (set once in main).
static HANG_CTX: std::sync::OnceLock<(PathBuf, Option<String>, String, u64)> = std::sync::OnceLock::new();
/// Start of the process and what the secondary configurations reported (for a watchdog report's evidence).
static HANG_EXTRA: std::sync::OnceLock<(Instant, Vec<serde_json::Value>)> = std::sync::OnceLock::new();

fn run_batch_kind(base: u64, runs: u64, workers: usize, known: &KnownFindings, kind: Kind) -> BatchStats {
    let stop_after = Arc::new(AtomicU64::new(u64::MAX));
    let known = Arc::new(known.clone());
    let beats: Arc<Vec<Beat>> = Arc::new((0..workers).map(|_| Beat::default()).collect());
    let mut handles = Vec::new();
    for w in 0..workers {
        let stop_after = stop_after.clone();
        let known = known.clone();
        let beats = beats.clone();
        handles.push(
            std::thread::Builder::new()
                .stack_size(16 << 20)
                .spawn(move || {
                    let mut st = BatchStats::default();
                    let mut i = w as u64;
                    while i < runs {
                        if i > stop_after.load(Ordering::Relaxed) {
                            break;
                        }
                        run_one(base, i, &known, &mut st, &stop_after, kind, &beats[w]);
                        i += workers as u64;
                    }
                    beats[w].done.store(true, Ordering::SeqCst);
                    st
                })
                .expect("spawn worker"),
        );
    }
    // watchdog: a worker whose step counter stands still for hang_secs() is stuck in code under test
    {
        let beats = beats.clone();
        std::thread::spawn(move || {
            let limit = hang_secs();
            let mut last: Vec<u64> = vec![u64::MAX; beats.len()];
            let mut stale: Vec<u64> = vec![0; beats.len()];
            loop {
                std::thread::sleep(std::time::Duration::from_secs(1));
                if beats.iter().all(|b| b.done.load(Ordering::SeqCst)) {
                    return;
                }
                for (w, b) in beats.iter().enumerate() {
                    if b.done.load(Ordering::SeqCst) {
                        continue;
                    }
                    let t = b.ticks.load(Ordering::SeqCst);
                    if t == last[w] {
                        stale[w] += 1;
                    } else {
                        stale[w] = 0;
                        last[w] = t;
                    }
                    if stale[w] >= limit {
                        let (dir, label, tier, seed) = HANG_CTX.get().cloned().unwrap_or((PathBuf::from("/verif"), None, "quick".into(), 0));
                        let ord = b.ordinal.load(Ordering::SeqCst);
                        report_hang(kind, base, b.index.load(Ordering::SeqCst), if ord == u64::MAX { usize::MAX } else { ord as usize }, &dir, &label, &tier, seed);
                    }
                }
            }
        });
    }
    let mut total = BatchStats::default();
    for h in handles {
        match h.join() {
            Ok(st) => total.merge(st),
            Err(_) => {
                eprintln!("HARNESS ERROR: a simulator worker panicked outside a guarded region (see message above)");
                std::process::exit(2);
            }
        }
    }
    total
}

// ---------------------------------------------------------------- minimise / replay

#[derive(Serialize, Deserialize)]
struct ReplayFile {
    property: String,
    class: String,
    detail: String,
    base_seed: u64,
    run_index: u64,
    minimised: bool,
    shrink_steps: u32,
    /// build configuration of the simulator that recorded this file (None = primary)
    #[serde(default, skip_serializing_if = "Option::is_none")]
    config_label: Option<String>,
    /// stack size (KiB) of the thread the step ran on, if not a 16 MiB worker
    #[serde(default, skip_serializing_if = "Option::is_none")]
    stack_kib: Option<u32>,
    /// the step ran on the process's main thread
    #[serde(default, skip_serializing_if = "std::ops::Not::not")]
    on_main_thread: bool,
    /// operations performed (on related values, results ignored) before the checked case
    #[serde(default)]
    history: Vec<history::HistOp>,
    case: Case,
    /// for `De` cases: the damaged record as delivered (derived from `case`, informational)
    #[serde(default, skip_serializing_if = "Option::is_none")]
    delivered_record: Option<serde_json::Value>,
    #[serde(default, skip_serializing_if = "Option::is_none")]
    delivered_bytes: Option<String>,
    /// when present, the reproduction is this window of whole runs (executed in order on one
    /// thread of a fresh process); `case` is then only the operation that failed at the end of it
    #[serde(default, skip_serializing_if = "Option::is_none")]
    sequence: Option<SequenceSpec>,
    #[serde(default)]
    original_history: Vec<history::HistOp>,
    original_case: Case,
}

fn has_class(rep: &LegReport, class: &str) -> Option<Violation> {
    rep.violations.iter().find(|v| v.class == class).cloned()
}

/// Execute a step on a helper thread and give up after the hang deadline (the stuck thread is
/// abandoned; only used on the failure path).
fn execute_with_deadline(step: &Step) -> Option<LegReport> {
    let (tx, rx) = std::sync::mpsc::channel();
    let step = step.clone();
    std::thread::Builder::new()
        .stack_size(16 << 20)
        .spawn(move || {
            let _ = tx.send(step.execute());
        })
        .ok()?;
    rx.recv_timeout(std::time::Duration::from_secs(hang_secs())).ok()
}

fn minimise(case: &Step, class: &str, known: &KnownFindings) -> (Step, u32) {
    let mut cur = case.clone();
    let mut steps = 0u32;
    let mut execs = 0u32;
    // never revisit a case: shrink candidates are "simpler" only informally
    let mut seen: BTreeSet<String> = BTreeSet::new();
    let key = |s: &Step| format!("{}|{}", serde_json::to_string(&s.history).unwrap_or_default(), serde_json::to_string(&s.case).unwrap_or_default());
    seen.insert(key(&cur));
    let started = Instant::now();
    'outer: loop {
        for cand in cur.shrink() {
            if started.elapsed().as_secs() > 180 {
                break 'outer; // minimisation is a convenience: never let it dominate a failing run
            }
            if !seen.insert(key(&cand)) {
                continue;
            }
            execs += 1;
            if execs > 5000 {
                break 'outer;
            }
            let leg = cand.case.leg();
            // a candidate may run into a second, hanging defect: never wait for it
            let Some(rep) = execute_with_deadline(&cand) else { continue };
            if rep.violations.iter().any(|v| v.class == class && known.matches(leg, v).is_none()) {
                cur = cand;
                steps += 1;
                continue 'outer;
            }
        }
        break;
    }
    (cur, steps)
}

fn informational(case: &Case) -> (Option<serde_json::Value>, Option<String>) {
    match case {
        Case::De(c) => (serde_json::to_value(deleg::derive_stream(c)).ok(), None),
        Case::JsonRead(c) => (None, Some(String::from_utf8_lossy(&jsonleg::derive_bytes(c)).into_owned())),
        Case::Toml(c) => (None, Some(String::from_utf8_lossy(&jsonleg::apply_byte_faults(c.base.as_bytes(), &c.faults)).into_owned())),
        _ => (None, None),
    }
}

fn replay(path: &Path, known: &KnownFindings, my_label: &Option<String>, known_dir: &Path) -> i32 {
    let text = match std::fs::read_to_string(path) {
        Ok(t) => t,
        Err(e) => {
            eprintln!("cannot read replay file {}: {e}", path.display());
            return 2;
        }
    };
    let rf: ReplayFile = match serde_json::from_str(&text) {
        Ok(r) => r,
        Err(e) => {
            eprintln!("cannot parse replay file {}: {e}", path.display());
            return 2;
        }
    };
    if rf.config_label != *my_label {
        eprintln!(
            "HARNESS ERROR: replay file {} was recorded by configuration {:?} but this simulator binary is configuration {:?} (use ./check C20 --replay, which routes by the configuration label stored in the file)",
            path.display(),
            rf.config_label.as_deref().unwrap_or("primary"),
            my_label.as_deref().unwrap_or("primary")
        );
        return 2;
    }
    if let (Some(spec), true) = (&rf.sequence, rf.class == "CRASH") {
        // re-executing this window is expected to kill the process: do it in a child
        println!("replay {}: window of runs {}..={} (kind {}) in a child process, recorded class=CRASH", path.display(), spec.from, spec.to, spec.kind);
        let a2 = Args::for_child(known_dir, my_label);
        return match Kind::parse(&spec.kind).map(|k| run_child_window(&a2, spec.base_seed, k, spec.from, spec.to, spec.stride.max(1))) {
            Some(ChildEnd::Died(how)) => {
                println!("  the child process was killed ({how})");
                println!("REPRODUCED class=CRASH detail_identical=true");
                println!("VIOLATION property={PROPERTY} replay={}", path.display());
                1
            }
            Some(ChildEnd::Failed(run, leg, class, detail)) => {
                println!("  run {run} leg {leg}: {class}: {detail}");
                println!("REPRODUCED-DIFFERENTLY class={class} (recorded: CRASH)");
                println!("VIOLATION property={PROPERTY} replay={}", path.display());
                1
            }
            Some(ChildEnd::Clean) => {
                println!("NOT-REPRODUCED class=CRASH (the recorded violation does not occur on this tree)");
                0
            }
            _ => {
                eprintln!("HARNESS ERROR: cannot re-execute the window of {}", path.display());
                2
            }
        };
    }
    if let Some(spec) = &rf.sequence {
        println!(
            "replay {}: window of runs {}..={} (kind {}, base seed {}) on one thread, recorded class={}",
            path.display(),
            spec.from,
            spec.to,
            spec.kind,
            spec.base_seed,
            rf.class
        );
        return match run_sequence(spec, known) {
            SeqOutcome::Fail(i, leg, v) => {
                println!("  run {i} leg {}: {}: {}", LEG_NAMES[leg], v.class, v.detail);
                if i == spec.to && v.class == rf.class {
                    println!("REPRODUCED class={} detail_identical={}", v.class, v.detail == rf.detail);
                } else {
                    println!("REPRODUCED-DIFFERENTLY class={} at run {i} (recorded: class {} at run {})", v.class, rf.class, spec.to);
                }
                println!("VIOLATION property={PROPERTY} replay={}", path.display());
                1
            }
            SeqOutcome::Hang(i) => {
                println!("  HANG: run {i} did not complete within the deadline");
                if rf.class == "HANG" {
                    println!("REPRODUCED class=HANG detail_identical=true");
                }
                println!("VIOLATION property={PROPERTY} replay={}", path.display());
                // the stuck thread cannot be joined: end the process here
                std::process::exit(1);
            }
            SeqOutcome::Clean => {
                println!("NOT-REPRODUCED class={} (the recorded violation does not occur on this tree)", rf.class);
                0
            }
            SeqOutcome::Crashed => {
                eprintln!("HARNESS ERROR: the replay thread died outside a guarded region");
                2
            }
        };
    }
    let step = Step { history: rf.history.clone(), case: rf.case.clone(), stack_kib: rf.stack_kib };
    println!("replay {}: leg={} recorded class={}", path.display(), LEG_NAMES[rf.case.leg()], rf.class);
    if rf.on_main_thread {
        // recorded on the main thread: execute right here (replay() was called on the main thread)
        let rep = step.execute();
        return finish_replay(path, &rf, &rep, known);
    }
    // execute under a deadline: a recorded HANG must not hang the replay
    let (tx, rx) = std::sync::mpsc::channel();
    {
        let step = step.clone();
        let _ = std::thread::Builder::new().stack_size(16 << 20).spawn(move || {
            let _ = tx.send(step.execute());
        });
    }
    let rep = match rx.recv_timeout(std::time::Duration::from_secs(hang_secs())) {
        Ok(rep) => rep,
        Err(std::sync::mpsc::RecvTimeoutError::Disconnected) => {
            eprintln!("HARNESS ERROR: the replay thread died outside a guarded region");
            return 2;
        }
        Err(std::sync::mpsc::RecvTimeoutError::Timeout) => {
            println!("  HANG: the operation did not complete within {} s", hang_secs());
            if rf.class == "HANG" {
                println!("REPRODUCED class=HANG detail_identical=true");
            }
            println!("VIOLATION property={PROPERTY} replay={}", path.display());
            std::process::exit(1);
        }
    };
    finish_replay(path, &rf, &rep, known)
}

fn finish_replay(path: &Path, rf: &ReplayFile, rep: &LegReport, known: &KnownFindings) -> i32 {
    println!("outcome: {}", rep.outcome);
    let mut code = 0;
    for v in &rep.violations {
        println!("  {}: {}", v.class, v.detail);
        if v.class == "HARNESS" {
            return 2;
        }
        if let Some(k) = known.matches(rf.case.leg(), v) {
            println!("KNOWN-FINDING: property={PROPERTY} {}", known.findings[k].what);
        } else {
            code = 1;
        }
    }
    match has_class(rep, &rf.class) {
        Some(v) => {
            println!("REPRODUCED class={} detail_identical={}", v.class, v.detail == rf.detail);
            if code == 1 {
                println!("VIOLATION property={PROPERTY} replay={}", path.display());
            }
        }
        None if code == 1 => {
            // the recorded violation is gone but the same operation violates the property in another way
            let other: Vec<&str> = rep.violations.iter().map(|v| v.class.as_str()).collect();
            println!("REPRODUCED-DIFFERENTLY: recorded class {} does not occur, the operation now shows {:?}", rf.class, other);
            println!("VIOLATION property={PROPERTY} replay={}", path.display());
        }
        None => println!("NOT-REPRODUCED class={} (the recorded violation does not occur on this tree)", rf.class),
    }
    code
}

// ---------------------------------------------------------------- evidence

const REQUIRED_PROBES: &[&str] = &[
    "fmt_branch_display_plain",
    "fmt_branch_display_plus",
    "fmt_branch_display_prec",
    "fmt_branch_display_plus_prec",
    "fmt_branch_lowerexp_plain",
    "fmt_branch_lowerexp_plus",
    "fmt_branch_lowerexp_prec",
    "fmt_branch_lowerexp_plus_prec",
    "fmt_branch_upperexp_plain",
    "fmt_branch_upperexp_plus",
    "fmt_branch_upperexp_prec",
    "fmt_branch_upperexp_plus_prec",
    "fmt_lo_negative_zero",
    "fmt_lo_subnormal",
    "fmt_error_propagated",
    "ser_error_propagated",
    "rt_seq_ok",
    "rt_map_ok",
    "rt_map_reversed_ok",
    "rt_map_fields_hint_ok",
    "de_format_honours_fields_hint",
    "json_host_rt_ok",
    "json_host_flatten",
    "json_host_untagged",
    "json_host_internally_tagged",
    "json_host_option",
    "json_host_vec",
    "json_host_btreemap",
    "json_host_tuple",
    "json_host_stream",
    "json_api_via_value",
    "json_api_via_value_ref",
    "sink_reentrant_formatting",
    "sink_reentrant_nested",
    "sink_reentrant_with_spec",
    "sink_reentrant_depth_over_40",
    "json_reader_behind_bufreader",
    "history_before_checked_operation",
    "fmt_with_width_or_alternate_flags",
    "fmt_flags_alternate",
    "fmt_flags_zero_width",
    "fmt_flags_plus_zero_width",
    "de_in_place_agrees",
    "rt_serde_value_deserializers_ok",
    "toml_rt_ok",
    "toml_accept_valid",
    "toml_reject_overlap",
    "toml_reject_nonfinite",
    "toml_reject_duplicate",
    "toml_reject_missing",
    "toml_reject_unknown",
    "toml_host_flatten",
    "toml_host_nested",
    "toml_host_array",
    "fmt_io_error_propagated",
    "fmt_io_benign_faults_transparent",
    "de_format_binary",
    "de_reject_duplicate_hi",
    "de_reject_duplicate_lo",
    "de_reject_missing_hi",
    "de_reject_missing_lo",
    "de_reject_invalid_length_0",
    "de_reject_invalid_length_1",
    "de_reject_unknown_field",
    "de_overlap_rejected_via_seq",
    "de_overlap_rejected_via_map",
    "de_nonfinite_rejected",
    "de_accept_exact_tie_even_hi",
    "de_reject_exact_tie_odd_hi",
    "de_accept_lo_negative_zero",
    "de_accept_lo_subnormal",
    "de_err_io_propagated",
    "de_err_eof_in_value",
    "de_key_visit_str",
    "de_key_visit_borrowed_str",
    "de_key_visit_string",
    "json_rt_ok",
    "json_value_rt_ok",
    "json_write_error_propagated",
    "json_write_benign_faults_transparent",
    "json_reject_overlap",
    "json_reject_duplicate",
    "json_reject_missing",
    "json_reject_unknown",
    "json_reject_eof",
    "json_reject_io_error",
];

const REQUIRED_FAULTS: &[&str] = &[
    "sink_fail_at_chunk_sticky",
    "sink_fail_at_chunk_transient",
    "sink_capacity_sticky",
    "sink_capacity_transient",
    "ser_fault_at_serialize_struct",
    "ser_fault_at_first_field",
    "ser_fault_at_second_field",
    "ser_fault_at_end",
    "de_access_fault_sticky",
    "de_access_fault_transient",
    "storage_truncate",
    "storage_duplicate_entry",
    "storage_reorder",
    "storage_drop_entry",
    "storage_insert_unknown",
    "storage_rename_key",
    "storage_bit_flip",
    "storage_exponent_stuck_high",
    "storage_zero_fill",
    "storage_stale_word",
    "storage_lo_half_ulp",
    "storage_lo_half_ulp_next_up",
    "storage_lo_half_ulp_next_down",
    "storage_lo_quarter_ulp",
    "storage_hi_next_up",
    "storage_hi_next_down",
    "storage_word_swap",
    "storage_word_dup",
    "storage_type_confuse",
    "writer_interrupted",
    "writer_short_write",
    "writer_hard_error_sticky",
    "writer_hard_error_transient",
    "writer_zero_length_write",
    "bytes_truncate",
    "bytes_bit_flip",
    "bytes_dup_span",
    "bytes_zero_span",
    "bytes_swap_spans",
    "bytes_overwrite",
    "reader_interrupted",
    "reader_hard_error",
    "reader_early_eof",
    "reader_short_reads",
    "fmt_io_hard_error",
    "fmt_io_interrupted",
    "fmt_io_short_write",
    "fmt_io_zero_length_write",
    "toml_bytes_truncate",
    "toml_bytes_bit_flip",
    "toml_bytes_dup_span",
    "toml_bytes_swap_spans",
    "toml_bytes_overwrite",
];

#[allow(clippy::too_many_arguments)]
fn write_evidence(
    path: &Path,
    tier: &str,
    seed: u64,
    seeds_used: &[u64],
    runs_per_seed: u64,
    workers: usize,
    st: &BatchStats,
    wall_s: f64,
    violations: u64,
    known: &KnownFindings,
    other_configurations: &[serde_json::Value],
) -> Result<(), String> {
    let mut total = st.probes.clone();
    total.merge(&st.probes_fault_free);
    let zero_probes: Vec<&str> = REQUIRED_PROBES.iter().copied().filter(|p| total.get(p) == 0).collect();
    let zero_faults: Vec<&str> = REQUIRED_FAULTS.iter().copied().filter(|p| st.faults_fired.get(p) == 0).collect();
    let vclass: BTreeMap<&str, u64> = values::VCLASS_NAMES.iter().copied().zip(st.vclass.iter().copied()).collect();
    let samples: Vec<&serde_json::Value> = st.samples.values().map(|(_, v)| v).collect();
    let runs_per_hour = if wall_s > 0.0 { (st.runs as f64 / wall_s * 3600.0) as u64 } else { 0 };
    let ev = serde_json::json!({
        "property_id": PROPERTY,
        "tier": tier,
        "seed": seed,
        "level": "exploration",
        "coverage": {
            "evaluations": st.runs,
            "distinct_nontrivial": st.sigs_faulted.len(),
            "rule": "One evaluation = one simulated run: a reference-valid (hi, lo) value drawn from the seeded generator (classes below) and driven through six legs — (Fmt) formatting into a faulty fmt::Write sink or a faulty io::Write; (Ser) Serialize into a faulty simulated serializer plus read-back of the emitted record as seq / map / reversed map, through a hint-driven format, a binary format and serde's value deserializers; (De) Deserialize from a storage-damaged record through a faulty simulated deserializer; (JsonWrite) serde_json writer over a faulty io::Write, plus round trips through Value, eight host structures and TOML; (JsonRead) serde_json reader over damaged bytes and a faulty io::Read, bare or inside a host structure; (Toml) toml parser over damaged text. In the quick tier 2048 further 'runs' are the thin validity-gate lattice (one per biased exponent of the high word); in the thorough tier the systematic sweep values are counted as runs too (see systematic_fault_position_sweep). distinct_nontrivial = number of distinct abstract seam traces among legs that ran under at least one planned fault: hash of (leg, sequence of seam call kinds, per-call result kind, chunk-length class / slot type / key kind, fault kind, outcome class) with concrete values abstracted away. Fault-free legs (about 35 % of the random legs) are excluded from that count and reported separately.",
            "samples": samples,
            "simulated_runs": st.runs,
            "systematic_fault_position_sweep": {
                "note": "thorough tier only: for each of `values` generator-drawn values, every single-fault position is enumerated (each sink chunk and capacity, each serializer call site, each access call of each presentation of the intact and of ~30 singly-damaged records, each JSON writer call, each truncation length / read-failure offset / early-EOF offset of the stored JSON, each truncation length of the stored TOML); in addition sweep index i <= 2047 delivers, as seq and as map in both key orders, a lattice of word pairs whose high word has biased exponent i (14 mantissa patterns x 2 signs) and whose low word sits on, one and two ulps beside, and at random points around every threshold 2^(E-51..E-55), plus zeros, minimal subnormals, infinities and NaN, both signs; these cases are included in legs_executed",
                "values": st.sweep_values,
                "cases": st.sweep_cases,
                "quick_tier_thin_lattice_cases": st.lattice_cases
            },
            "legs_executed": st.legs,
            "legs_under_planned_faults": st.legs_faulted,
            "legs_fault_free": st.legs_fault_free,
            "distinct_seam_traces_all_legs": st.sigs_all.len(),
            "distinct_faulted_traces_per_leg_approx": {
                "note": "split of distinct_nontrivial by leg (top 4 bits of the trace hash carry the leg, so the split is approximate to within hash collisions); most of the variety in the Fmt, JsonWrite, JsonRead and Toml legs comes from how std / serde_json / toml chunk their writes and word their errors, not from twofloat's own behaviour, whose seam-level variety is what the Ser and De legs show",
                "Fmt": st.sigs_faulted_per_leg[0], "Ser": st.sigs_faulted_per_leg[1], "De": st.sigs_faulted_per_leg[2],
                "JsonWrite": st.sigs_faulted_per_leg[3], "JsonRead": st.sigs_faulted_per_leg[4], "Toml": st.sigs_faulted_per_leg[5]
            },
            "simulated_time": {
                "unit": "logical steps = seam events delivered (calls across fmt::Write / Serializer / Deserializer access / io::Read / io::Write); the code under test has no clock, timer or deadline, so there is no simulated wall time to report",
                "seam_events": st.steps
            },
            "crate_is_stateless_and_environment_blind": {
                "note": "assumption behind the histories and the replay files; the crate's sources are scanned for statics, thread-locals, interior mutability, clocks, env/thread/type identity, target-specific cfg; hits are listed, not judged",
                "indicators_found": crate::vocab::state_and_environment_indicators()
            },
            "runs_per_hour": runs_per_hour,
            "runs_per_hour_note": "primary configuration's batch only (wall_s likewise): builds and the secondary configurations are not included; lattice and sweep 'runs' hold hundreds to thousands of cases each",
            "build_configurations": {
                "primary": "twofloat with default features (std, math_funcs) + serde: everything reported in this file outside this key",
                "secondary": other_configurations
            },
            "seeds": seeds_used,
            "runs_per_seed": runs_per_seed,
            "workers": workers,
            "batch_digest": format!("{:016x}", st.digest),
            "faults_fired": st.faults_fired.0,
            "faults_fired_note": "a fault counts as fired only if it took effect (a sink/serializer/access/reader/writer call actually failed; a storage or byte fault actually changed the record); *_interrupted, *_short_write and reader_short_reads count occurrences (calls), every other kind counts legs",
            "fault_kinds_not_injected": {
                "allocation_failure": "the crate never allocates",
                "clock_skew_timeouts": "no clock, timer or deadline anywhere in the crate",
                "partitions_crash_restart_thread_stalls": "no peers, no persistent state, no threads"
            },
            "probes_under_faults": st.probes.0,
            "probes_fault_free": st.probes_fault_free.0,
            "required_probes_at_zero": zero_probes,
            "required_fault_kinds_at_zero": zero_faults,
            "value_classes": vclass,
            "generator": {
                "discarded_candidates": st.gen.discards,
                "api_chain_results_invalid_discarded": st.gen.api_invalid,
                "api_chain_results_nonfinite_discarded": st.gen.api_nonfinite,
                "api_chain_panics_in_crate_maths_discarded": st.gen.api_panicked,
                "api_chain_panic_example": st.gen.api_first_panic
            },
            "known_finding_hits": st.known_hits.iter().map(|(k, v)| (known.findings[*k].what.clone(), *v)).collect::<BTreeMap<_, _>>(),
            "components": {
                "real": [
                    "twofloat (built from /repo's working tree): Display/LowerExp/UpperExp, Serialize, Deserialize with its Field and visitor, TryFrom<(f64,f64)>, no_overlap; arithmetic/maths API for workload generation only",
                    "core::fmt Formatter and f64 rendering",
                    "serde trait machinery and primitive f64 impls",
                    "serde_json reader/writer (float_roundtrip), Value serializer/deserializer, StreamDeserializer",
                    "serde's own buffering deserializers reached through host structures: #[serde(flatten)] (FlatMapDeserializer), internally tagged and untagged enums (Content), Option, Vec, BTreeMap, tuple",
                    "serde::de::value::{MapDeserializer, SeqDeserializer}",
                    "toml 1.1 serializer and parser (second real format; carries inf / nan / -0.0)",
                    "std io::Write::write_fmt adapter (formatting into an io::Write)"
                ],
                "simulated": [
                    "SimSink (fmt::Write)", "SimSerializer / SimDeserializer (SimFormat) and the stored record",
                    "SimReader (io::Read)", "SimWriter (io::Write; also as the target of write! for formatting)", "stored JSON bytes", "stored TOML text"
                ],
                "oracles": [
                    "hand-written sequential model of struct decoding + reference predicate hi + lo == hi",
                    "serde derive on an equivalent struct fed the identical stream (model cross-check; standard reader of the JSON/TOML oracle family)",
                    "oracle family for real-format records: RefStrict (f64-typed words only), RefLenient (any numeric or numeric-string word, scalars, drained extra elements, no fields hint), RefNoHint; disagreement = unspecified",
                    "std f64 formatting/parsing for numerals"
                ]
            },
            "exhaustive": false
        },
        "assumptions": [
            "host f64 addition is IEEE-754 round-to-nearest-even (self-checked at start-up on tie cases)",
            "std f64 Display/LowerExp/UpperExp and str::parse::<f64> define the reference numerals (the property is stated in those terms; round trip self-checked)",
            "serde_json with float_roundtrip reads and writes f64 bit-exactly (self-checked on every JSON write leg; a failure is exit 2)",
            "the toml crate reads and writes finite f64 bit-exactly (self-checked per value; on failure the TOML round trip of that value is skipped and counted, not reported)",
            if layout_is_hi_lo() { "TwoFloat is #[repr(C)] {hi, lo} (checked at start-up): values under test are built by bit copy so that construction does not depend on code under test" } else { "TwoFloat's layout is not {hi, lo}: values under test were built through the crate's own TryFrom (fallback)" },
            "a clean batch is evidence over the sampled runs, not a proof over all 2^128 pairs"
        ],
        "wall_s": wall_s,
        "violations": violations
    });
    if let Some(dir) = path.parent() {
        std::fs::create_dir_all(dir).map_err(|e| e.to_string())?;
    }
    std::fs::write(path, serde_json::to_string_pretty(&ev).unwrap() + "\n").map_err(|e| e.to_string())
}

// ---------------------------------------------------------------- main

struct Args {
    tier: String,
    seed: u64,
    runs: Option<u64>,
    seeds: Option<u64>,
    sweep: Option<u64>,
    workers: usize,
    replay: Option<PathBuf>,
    selftest: bool,
    digest_only: bool,
    verif_dir: PathBuf,
    /// where evidence/ and replays/ are written (default: verif_dir)
    out_dir: Option<PathBuf>,
    no_respawn: bool,
    /// label of the build configuration this binary was compiled in (e.g. "no_std")
    config_label: Option<String>,
    /// write a short JSON summary here instead of the evidence file (secondary configurations)
    summary_only: Option<PathBuf>,
    /// summaries of secondary configurations to embed in the evidence
    merge_summaries: Vec<PathBuf>,
    /// secondary configurations in which the crate itself does not build (skipped)
    skipped_configs: Vec<String>,
    /// secondary configurations whose simulator ended without a summary (`label:status`)
    failed_configs: Vec<String>,
    /// run the quick tier's thin validity-gate lattice even with an explicit `--runs` budget
    lattice: bool,
    /// the batch of this configuration died abnormally (stack overflow, abort): find the run that
    /// kills a single-threaded child process and report it as a CRASH violation
    crash_hunt: bool,
    /// `--replay-sequence <base> <kind> <from> <to>`: run that window on one thread and report
    replay_sequence: Option<SequenceSpec>,
}

impl Args {
    /// Minimal arguments for spawning window children from the replay path.
    fn for_child(verif_dir: &Path, label: &Option<String>) -> Args {
        Args {
            tier: "quick".into(),
            seed: DEFAULT_SEED,
            runs: None,
            seeds: None,
            sweep: None,
            workers: 1,
            replay: None,
            selftest: false,
            digest_only: false,
            verif_dir: verif_dir.to_path_buf(),
            out_dir: None,
            no_respawn: true,
            config_label: label.clone(),
            summary_only: None,
            merge_summaries: Vec::new(),
            skipped_configs: Vec::new(),
            failed_configs: Vec::new(),
            lattice: false,
            crash_hunt: false,
            replay_sequence: None,
        }
    }
}

fn parse_args() -> Result<Args, String> {
    let mut a = Args {
        tier: std::env::var("VERIF_TIER").unwrap_or_else(|_| "quick".into()),
        seed: match std::env::var("VERIF_SEED") {
            Ok(s) if !s.trim().is_empty() => s.trim().parse::<u64>().map_err(|e| format!("VERIF_SEED: {e}"))?,
            _ => DEFAULT_SEED,
        },
        runs: None,
        seeds: None,
        sweep: None,
        workers: std::thread::available_parallelism().map(|n| n.get()).unwrap_or(4).min(16),
        replay: None,
        selftest: false,
        digest_only: false,
        verif_dir: PathBuf::from(std::env::var("VERIF_DIR").unwrap_or_else(|_| "/verif".into())),
        out_dir: std::env::var("VERIF_OUT_DIR").ok().filter(|s| !s.is_empty()).map(PathBuf::from),
        no_respawn: false,
        config_label: None,
        summary_only: None,
        merge_summaries: Vec::new(),
        skipped_configs: Vec::new(),
        failed_configs: Vec::new(),
        lattice: false,
        crash_hunt: false,
        replay_sequence: None,
    };
    let mut it = std::env::args().skip(1);
    while let Some(x) = it.next() {
        let mut val = |name: &str| it.next().ok_or_else(|| format!("{name} needs a value"));
        match x.as_str() {
            "quick" | "thorough" => a.tier = x,
            "--tier" => a.tier = val("--tier")?,
            "--seed" => a.seed = val("--seed")?.parse().map_err(|e| format!("--seed: {e}"))?,
            "--runs" => a.runs = Some(val("--runs")?.parse().map_err(|e| format!("--runs: {e}"))?),
            "--seeds" => a.seeds = Some(val("--seeds")?.parse().map_err(|e| format!("--seeds: {e}"))?),
            "--sweep" => a.sweep = Some(val("--sweep")?.parse().map_err(|e| format!("--sweep: {e}"))?),
            "--workers" => a.workers = val("--workers")?.parse().map_err(|e| format!("--workers: {e}"))?,
            "--replay" => a.replay = Some(PathBuf::from(val("--replay")?)),
            "--verif-dir" => a.verif_dir = PathBuf::from(val("--verif-dir")?),
            "--out-dir" => a.out_dir = Some(PathBuf::from(val("--out-dir")?)),
            "selftest" | "--selftest" => a.selftest = true,
            "--digest-only" => a.digest_only = true,
            "--no-respawn" => a.no_respawn = true,
            "--lattice" => a.lattice = true,
            "--crash-hunt" => a.crash_hunt = true,
            "--config-label" => a.config_label = Some(val("--config-label")?),
            "--summary-only" => a.summary_only = Some(PathBuf::from(val("--summary-only")?)),
            "--merge-summary" => a.merge_summaries.push(PathBuf::from(val("--merge-summary")?)),
            "--skipped-config" => a.skipped_configs.push(val("--skipped-config")?),
            "--failed-config" => a.failed_configs.push(val("--failed-config")?),
            "--replay-sequence" => {
                let base_seed = val("--replay-sequence")?.parse().map_err(|e| format!("--replay-sequence base: {e}"))?;
                let kind = val("--replay-sequence")?;
                let from = val("--replay-sequence")?.parse().map_err(|e| format!("--replay-sequence from: {e}"))?;
                let to = val("--replay-sequence")?.parse().map_err(|e| format!("--replay-sequence to: {e}"))?;
                let stride = val("--replay-sequence")?.parse().map_err(|e| format!("--replay-sequence stride: {e}"))?;
                a.replay_sequence = Some(SequenceSpec { base_seed, kind, from, to, stride });
            }
            "C20" => {}
            other => return Err(format!("unknown argument {other}")),
        }
    }
    if a.tier != "quick" && a.tier != "thorough" {
        return Err(format!("unknown tier {}", a.tier));
    }
    a.workers = a.workers.max(1);
    Ok(a)
}

fn seed_list(seed: u64, n: u64) -> Vec<u64> {
    // the first base seed is VERIF_SEED itself; the others are derived from it
    let mut out = vec![seed];
    let mut s = seed ^ 0x5EED_5EED_5EED_5EED;
    while (out.len() as u64) < n {
        out.push(prng::splitmix64(&mut s));
    }
    out
}

fn selftest(a: &Args, known: &KnownFindings) -> i32 {
    // 1. in-process determinism: every run executed twice, logs compared
    let n = a.runs.unwrap_or(20_000);
    let mut st = values::GenStats::default();
    for i in 0..n {
        let (_, c1) = generate_run(a.seed, i, &mut st);
        let (_, c2) = generate_run(a.seed, i, &mut st);
        if c1 != c2 {
            println!("SELFTEST FAIL: generation of run {i} is not deterministic");
            return 2;
        }
        for (x, y) in c1.iter().zip(&c2) {
            let (r1, r2) = (x.execute(), y.execute());
            if r1.log.finish() != r2.log.finish() || r1.violations != r2.violations || r1.sig.finish() != r2.sig.finish() {
                println!("SELFTEST FAIL: execution of run {i} leg {} is not deterministic", LEG_NAMES[x.case.leg()]);
                return 2;
            }
            // replay-file round trip: serialise the case and its history, parse them, execute: same log
            let js = serde_json::to_string(&x.case).unwrap();
            let hs = serde_json::to_string(&x.history).unwrap();
            let back: Step = match (serde_json::from_str::<Case>(&js), serde_json::from_str::<Vec<history::HistOp>>(&hs)) {
                (Ok(c), Ok(h)) => Step { history: h, case: c, stack_kib: x.stack_kib },
                (a, b) => {
                    println!("SELFTEST FAIL: case does not survive its replay encoding: {:?} {:?}\n{js}\n{hs}", a.err(), b.err());
                    return 2;
                }
            };
            if back != *x || back.execute().log.finish() != r1.log.finish() {
                println!("SELFTEST FAIL: replayed case of run {i} leg {} behaves differently", LEG_NAMES[x.case.leg()]);
                return 2;
            }
        }
    }
    println!("selftest: {n} runs executed twice in-process and once from their replay encoding: identical logs");
    // 2. batch digests at several worker counts
    let mut digests = Vec::new();
    for w in [1usize, 3, 16] {
        let b = run_batch(a.seed, n, w, known);
        digests.push((w, b.digest, b.sigs_all.len(), b.probes.0.clone(), b.faults_fired.0.clone()));
    }
    for d in &digests[1..] {
        if d.1 != digests[0].1 || d.2 != digests[0].2 || d.3 != digests[0].3 || d.4 != digests[0].4 {
            println!("SELFTEST FAIL: batch result depends on the worker count ({} vs {})", digests[0].0, d.0);
            return 2;
        }
    }
    println!("selftest: batch digest {:016x} identical at 1, 3 and 16 workers", digests[0].1);
    // 3. fresh processes
    if !a.no_respawn {
        let exe = std::env::current_exe().expect("current_exe");
        let mut outs = BTreeSet::new();
        let mut children = Vec::new();
        for k in 0..32 {
            let w = [1, 3, 16, 5][k % 4].to_string();
            children.push(
                std::process::Command::new(&exe)
                    .args(["--digest-only", "--seed", &a.seed.to_string(), "--runs", &n.to_string(), "--workers", &w])
                    .output(),
            );
        }
        for c in children {
            match c {
                Ok(o) => {
                    outs.insert(String::from_utf8_lossy(&o.stdout).trim().to_string());
                }
                Err(e) => {
                    println!("SELFTEST FAIL: cannot spawn child: {e}");
                    return 2;
                }
            }
        }
        let want = format!("{:016x}", digests[0].1);
        if outs.len() != 1 || !outs.contains(&want) {
            println!("SELFTEST FAIL: fresh processes disagree: {:?} (want {want})", outs);
            return 2;
        }
        println!("selftest: 32 fresh processes at worker counts 1/3/16/5 reproduce digest {want}");
    }
    // 4. coverage floor: every required probe and fault kind fires at the quick budget
    let b = run_batch(a.seed, 200_000, a.workers, known);
    let mut total = b.probes.clone();
    total.merge(&b.probes_fault_free);
    let mut bad = false;
    for p in REQUIRED_PROBES {
        if total.get(p) < 100 {
            println!("SELFTEST FAIL: required probe {p} fired only {} times in 200k runs", total.get(p));
            bad = true;
        }
    }
    for p in REQUIRED_FAULTS {
        if b.faults_fired.get(p) < 100 {
            println!("SELFTEST FAIL: required fault kind {p} fired only {} times in 200k runs", b.faults_fired.get(p));
            bad = true;
        }
    }
    if bad {
        return 2;
    }
    println!("selftest: all {} required probes and {} fault kinds fired >= 100 times in 200k runs", REQUIRED_PROBES.len(), REQUIRED_FAULTS.len());
    0
}

/// Evidence for a batch that could not finish (watchdog report, crash hunt).
fn write_abort_evidence(out_dir: &Path, tier: &str, seed: u64, explanation: &str, violations: u64) {
    let (t0, extra) = HANG_EXTRA.get().cloned().unwrap_or((Instant::now(), Vec::new()));
    let other_viol: u64 = extra.iter().map(|e| e.get("violations").and_then(|v| v.as_u64()).unwrap_or(0) + if e.get("ended_without_summary").is_some() { 1 } else { 0 }).sum();
    let ev = serde_json::json!({
        "property_id": PROPERTY,
        "tier": tier,
        "seed": seed,
        "level": "other",
        "coverage": {
            "explanation": explanation,
            "runs_started": RUNS_DONE.load(Ordering::SeqCst),
            "steps_started": STEPS_DONE.load(Ordering::SeqCst),
            "aborted": true,
            "build_configurations": { "secondary": extra }
        },
        "assumptions": ["aborted batch: see explanation"],
        "wall_s": t0.elapsed().as_secs_f64(),
        "violations": violations + other_viol
    });
    let evp = out_dir.join("evidence");
    let _ = std::fs::create_dir_all(&evp);
    let _ = std::fs::write(evp.join(format!("{PROPERTY}.json")), serde_json::to_string_pretty(&ev).unwrap() + "\n");
}

/// How a single-threaded child process running a window of runs ended.
enum ChildEnd {
    Clean,
    Failed(u64, String, String, String),
    /// killed by a signal or ended with a status that is neither 0, 1 nor 2: the code under test took the process down
    Died(String),
    HarnessError,
}

fn run_child_window(a: &Args, base: u64, kind: Kind, from: u64, to: u64, stride: u64) -> ChildEnd {
    let Ok(exe) = std::env::current_exe() else { return ChildEnd::HarnessError };
    let out = std::process::Command::new(exe)
        .args([
            "--verif-dir",
            a.verif_dir.to_str().unwrap_or("/verif"),
            "--replay-sequence",
            &base.to_string(),
            kind.name(),
            &from.to_string(),
            &to.to_string(),
            &stride.to_string(),
        ])
        .output();
    let Ok(out) = out else { return ChildEnd::HarnessError };
    match out.status.code() {
        Some(0) if !String::from_utf8_lossy(&out.stdout).contains("SEQ-CLEAN") => {
            ChildEnd::Died("the process ended with status 0 before finishing the window: something in the code under test ended it".into())
        }
        Some(0) => ChildEnd::Clean,
        Some(1) => {
            let so = String::from_utf8_lossy(&out.stdout);
            match so.lines().find(|l| l.starts_with("SEQ-FAIL ")) {
                Some(line) => {
                    let field = |name: &str| -> String {
                        match line.find(&format!("{name}=")) {
                            Some(p) => {
                                let rest = &line[p + name.len() + 1..];
                                if name == "detail" { rest.to_string() } else { rest.split(' ').next().unwrap_or("").to_string() }
                            }
                            None => String::new(),
                        }
                    };
                    ChildEnd::Failed(field("run").parse().unwrap_or(to), field("leg"), field("class"), field("detail"))
                }
                None => ChildEnd::HarnessError,
            }
        }
        Some(2) => ChildEnd::HarnessError,
        Some(c) => ChildEnd::Died(format!("exit status {c}")),
        None => {
            #[cfg(unix)]
            {
                use std::os::unix::process::ExitStatusExt;
                ChildEnd::Died(format!("signal {}", out.status.signal().unwrap_or(0)))
            }
            #[cfg(not(unix))]
            {
                ChildEnd::Died("abnormal termination".into())
            }
        }
    }
}

/// The batch of this configuration was killed (stack overflow, abort...). Walk the same runs in
/// single-threaded child processes, find the run at which a child dies, and report it.
fn crash_hunt(a: &Args, out_dir: &Path) -> i32 {
    let (def_runs, def_seeds) = if a.tier == "quick" { (400_000u64, 1u64) } else { (2_000_000u64, 64u64) };
    let runs = a.runs.unwrap_or(def_runs);
    let seeds = seed_list(a.seed, a.seeds.unwrap_or(def_seeds));
    let mut phases: Vec<(Kind, u64, u64)> = seeds.iter().map(|s| (Kind::Random, *s, runs)).collect();
    if a.lattice || (a.tier == "quick" && a.sweep.is_none() && a.runs.is_none()) {
        phases.push((Kind::ThinLattice, a.seed, 2048));
    }
    let sweep_values = a.sweep.unwrap_or(if a.tier == "thorough" { 4000 } else { 0 });
    if sweep_values > 0 {
        phases.push((Kind::Sweep, a.seed, sweep_values));
    }
    let label = a.config_label.as_deref().map(|l| format!("-{l}")).unwrap_or_default();
    let replay_dir = out_dir.join("replays");
    let _ = std::fs::create_dir_all(&replay_dir);
    for (kind, base, n) in phases {
        let chunk = if kind == Kind::Random { 5000 } else { 16 };
        let mut from = 0u64;
        while from < n {
            let to = (from + chunk - 1).min(n - 1);
            match run_child_window(a, base, kind, from, to, 1) {
                ChildEnd::Clean => {}
                ChildEnd::HarnessError => {
                    eprintln!("HARNESS ERROR: crash hunt: a child process reported a harness error in runs {from}..={to}");
                    return 2;
                }
                ChildEnd::Failed(run, leg, class, detail) => {
                    // an ordinary violation met on the way: report it as a window
                    let spec = SequenceSpec { base_seed: base, kind: kind.name().into(), from, to: run, stride: 1 };
                    return report_window(a, &replay_dir, &label, &spec, &leg, &class, &detail, out_dir);
                }
                ChildEnd::Died(how) => {
                    // smallest end of the window at which the child still dies
                    let (mut lo, mut hi) = (from, to);
                    while lo < hi {
                        let mid = lo + (hi - lo) / 2;
                        match run_child_window(a, base, kind, from, mid, 1) {
                            ChildEnd::Died(_) => hi = mid,
                            _ => lo = mid + 1,
                        }
                    }
                    let run = lo;
                    // does that run kill a child on its own?
                    let alone = matches!(run_child_window(a, base, kind, run, run, 1), ChildEnd::Died(_));
                    let spec = SequenceSpec { base_seed: base, kind: kind.name().into(), from: if alone { run } else { from }, to: run, stride: 1 };
                    let detail = format!("the process running this window was killed ({how}): the code under test brought the process down (stack overflow, abort or similar) in run {run}");
                    return report_window(a, &replay_dir, &label, &spec, "Run", "CRASH", &detail, out_dir);
                }
            }
            from = to + 1;
        }
    }
    eprintln!("HARNESS ERROR: crash hunt: no single-threaded child process died or failed; the abnormal end of the batch did not reproduce");
    2
}

#[allow(clippy::too_many_arguments)]
fn report_window(a: &Args, replay_dir: &Path, label: &str, spec: &SequenceSpec, leg: &str, class: &str, detail: &str, out_dir: &Path) -> i32 {
    let placeholder = Case::Ser(serleg::SerCase { hi: 1.0f64.to_bits(), lo: 0, fault: None, human_readable: true });
    let rf = ReplayFile {
        property: PROPERTY.into(),
        class: class.into(),
        detail: detail.into(),
        base_seed: spec.base_seed,
        run_index: spec.to,
        minimised: false,
        shrink_steps: 0,
        config_label: a.config_label.clone(),
        stack_kib: None,
        on_main_thread: false,
        history: Vec::new(),
        case: placeholder.clone(),
        delivered_record: None,
        delivered_bytes: None,
        sequence: Some(spec.clone()),
        original_history: Vec::new(),
        original_case: placeholder,
    };
    let path = replay_dir.join(format!("{PROPERTY}{label}-{}-{}-{leg}-{class}-window.json", spec.base_seed, spec.to));
    if std::fs::write(&path, serde_json::to_string_pretty(&rf).unwrap() + "\n").is_err() {
        eprintln!("HARNESS ERROR: cannot write replay file {}", path.display());
        return 2;
    }
    if a.config_label.is_none() {
        write_abort_evidence(out_dir, &a.tier, a.seed, &format!("The batch ended abnormally and was re-walked in single-threaded child processes: {detail}"), 1);
    }
    println!("violation class={class} leg={leg} base_seed={} run={} history=runs {}..={} on one thread", spec.base_seed, spec.to, spec.from, spec.to);
    println!("  {detail}");
    println!("VIOLATION property={PROPERTY} replay={}", path.display());
    1
}

/// Spawn a fresh process that runs `from..=to` on one thread; returns the first failure it reports.
fn spawn_sequence(a: &Args, base: u64, kind: Kind, from: u64, to: u64, stride: u64) -> Option<(u64, String, String, String)> {
    let exe = std::env::current_exe().ok()?;
    let out = std::process::Command::new(exe)
        .args([
            "--verif-dir",
            a.verif_dir.to_str()?,
            "--replay-sequence",
            &base.to_string(),
            kind.name(),
            &from.to_string(),
            &to.to_string(),
            &stride.to_string(),
        ])
        .output()
        .ok()?;
    let so = String::from_utf8_lossy(&out.stdout);
    let line = so.lines().find(|l| l.starts_with("SEQ-FAIL "))?;
    let field = |name: &str| -> Option<String> {
        let start = line.find(&format!("{name}="))? + name.len() + 1;
        let rest = &line[start..];
        Some(if name == "detail" { rest.to_string() } else { rest.split(' ').next().unwrap_or("").to_string() })
    };
    Some((field("run")?.parse().ok()?, field("leg")?, field("class")?, field("detail")?))
}

/// Find a window of runs that fails in a fresh single-threaded process, and shrink it from the
/// front. Tried in this order: windows ending at the failing run (1, 2, 16, 256, 4096 runs, the
/// whole prefix); the failing worker's own schedule (every `workers`-th run up to the failing run:
/// state kept per thread); windows reaching *beyond* the failing run (in the batch, a
/// higher-indexed run may have executed earlier on another worker and left process-wide state
/// behind) — there the first failure inside the window defines its end.
fn find_sequence(base: u64, kind: Kind, idx: u64, total_runs: u64, a: &Args) -> Option<(SequenceSpec, usize, Violation)> {
    let mut found: Option<(u64, u64, (u64, String, String, String))> = None; // (from, stride, failure)
    for back in [0u64, 1, 15, 255, 4095, u64::MAX] {
        let from = idx.saturating_sub(back);
        if let Some(f) = spawn_sequence(a, base, kind, from, idx, 1) {
            found = Some((from, 1, f));
            break;
        }
        if from == 0 {
            break;
        }
    }
    if found.is_none() && a.workers > 1 {
        let w = a.workers as u64;
        if let Some(f) = spawn_sequence(a, base, kind, idx % w, idx, w) {
            found = Some((idx % w, w, f));
        }
    }
    if found.is_none() {
        for ahead in [16u64, 64, 256, 4096] {
            let to = (idx + ahead).min(total_runs.saturating_sub(1));
            if to <= idx {
                break;
            }
            if let Some(f) = spawn_sequence(a, base, kind, 0, to, 1) {
                found = Some((0, 1, f));
                break;
            }
        }
    }
    let (mut from, stride, (to, _leg, class, _detail)) = found?;
    // shrink from the front (bisection over positions of the schedule; the result is verified,
    // monotonicity is not assumed)
    let (mut lo, mut hi) = (0u64, (to - from) / stride);
    while lo < hi {
        let mid = lo + (hi - lo + 1) / 2;
        match spawn_sequence(a, base, kind, from + mid * stride, to, stride) {
            Some((j, _, c, _)) if j == to && c == class => lo = mid,
            _ => hi = mid - 1,
        }
    }
    from += lo * stride;
    // final verification in a fresh process
    match spawn_sequence(a, base, kind, from, to, stride) {
        Some((j, l, c, d)) if j == to && c == class => {
            let leg = LEG_NAMES.iter().position(|n| *n == l).unwrap_or(0);
            Some((SequenceSpec { base_seed: base, kind: kind.name().into(), from, to, stride }, leg, Violation { class: c, detail: d }))
        }
        _ => None,
    }
}

fn main() {
    let a = match parse_args() {
        Ok(a) => a,
        Err(e) => {
            eprintln!("tfsim: {e}");
            std::process::exit(2);
        }
    };
    install_panic_hook();
    if let Err(e) = values::host_selfcheck().and_then(|_| construct_selfcheck()) {
        eprintln!("HARNESS ERROR: {e}");
        std::process::exit(2);
    }
    let known = match KnownFindings::load(&a.verif_dir.join("known_findings.json")) {
        Ok(k) => k,
        Err(e) => {
            eprintln!("HARNESS ERROR: known_findings.json: {e}");
            std::process::exit(2);
        }
    };
    {
        // where a watchdog report goes, whatever mode follows
        let od = a.out_dir.clone().unwrap_or_else(|| a.verif_dir.clone());
        let _ = HANG_CTX.set((od, a.config_label.clone(), a.tier.clone(), a.seed));
        let mut extra = Vec::new();
        for p in &a.merge_summaries {
            if let Some(v) = std::fs::read_to_string(p).ok().and_then(|t| serde_json::from_str::<serde_json::Value>(&t).ok()) {
                extra.push(v);
            }
        }
        for l in &a.skipped_configs {
            extra.push(serde_json::json!({"configuration": l, "skipped": "twofloat itself does not build in this feature set on the tree under test"}));
        }
        for l in &a.failed_configs {
            let (label, status) = l.split_once(':').unwrap_or((l.as_str(), "?"));
            extra.push(serde_json::json!({"configuration": label, "ended_without_summary": true, "exit_status": status}));
        }
        let _ = HANG_EXTRA.set((Instant::now(), extra));
    }
    if a.crash_hunt {
        let od = a.out_dir.clone().unwrap_or_else(|| a.verif_dir.clone());
        std::process::exit(crash_hunt(&a, &od));
    }
    if let Some(p) = &a.replay {
        // a step recorded on the main thread is replayed on the main thread
        let on_main = std::fs::read_to_string(p)
            .ok()
            .and_then(|t| serde_json::from_str::<serde_json::Value>(&t).ok())
            .and_then(|v| v.get("on_main_thread").and_then(|b| b.as_bool()))
            .unwrap_or(false);
        if on_main {
            std::process::exit(replay(p, &known, &a.config_label, &a.verif_dir));
        }
        // same stack size as the batch workers
        let (p, known2, label, vdir) = (p.clone(), known.clone(), a.config_label.clone(), a.verif_dir.clone());
        let code = std::thread::Builder::new()
            .stack_size(16 << 20)
            .spawn(move || replay(&p, &known2, &label, &vdir))
            .expect("spawn replay thread")
            .join()
            .unwrap_or(2);
        std::process::exit(code);
    }
    if let Some(spec) = &a.replay_sequence {
        match run_sequence(spec, &known) {
            SeqOutcome::Fail(i, leg, v) => {
                println!("SEQ-FAIL run={i} leg={} class={} detail={}", LEG_NAMES[leg], v.class, v.detail);
                std::process::exit(1);
            }
            SeqOutcome::Hang(i) => {
                println!("SEQ-FAIL run={i} leg=Run class=HANG detail=run {i} did not complete within the deadline");
                std::process::exit(1);
            }
            SeqOutcome::Clean => {
                println!("SEQ-CLEAN");
                return;
            }
            SeqOutcome::Crashed => {
                eprintln!("HARNESS ERROR: the sequence thread died outside a guarded region");
                std::process::exit(2);
            }
        }
    }
    if a.digest_only {
        let b = run_batch(a.seed, a.runs.unwrap_or(20_000), a.workers, &known);
        println!("{:016x}", b.digest);
        return;
    }
    if a.selftest {
        std::process::exit(selftest(&a, &known));
    }

    let out_dir = a.out_dir.clone().unwrap_or_else(|| a.verif_dir.clone());
    let (def_runs, def_seeds) = if a.tier == "quick" { (400_000u64, 1u64) } else { (2_000_000u64, 64u64) };
    let runs = a.runs.unwrap_or(def_runs);
    let nseeds = a.seeds.unwrap_or(def_seeds);
    let seeds = seed_list(a.seed, nseeds);
    println!("VERIF_SEED={} tier={} base_seeds={} runs_per_seed={} workers={}", a.seed, a.tier, seeds.len(), runs, a.workers);
    let t0 = Instant::now();
    let mut total = BatchStats::default();
    let mut failing: Option<(u64, u64, Vec<(usize, Step, Vec<Violation>)>, Kind)> = None;
    for (k, s) in seeds.iter().enumerate() {
        let b = run_batch(*s, runs, a.workers, &known);
        let ff = b.first_fail.clone();
        total.merge(b);
        if seeds.len() > 1 {
            eprintln!("progress: base seed {}/{} ({}) done, {} runs so far, {:.0}s", k + 1, seeds.len(), s, total.runs, t0.elapsed().as_secs_f64());
        }
        if let Some((idx, fails)) = ff {
            failing = Some((*s, idx, fails, Kind::Random));
            break;
        }
    }
    // a slice of the same runs on the process's main thread: thread identity must not matter
    let mut main_thread_failure = false;
    if failing.is_none() && a.replay_sequence.is_none() {
        let n = if a.tier == "thorough" { 20_000 } else { 2_000 }.min(runs);
        ON_MAIN_THREAD.with(|m| m.set(true));
        let mut st = BatchStats::default();
        let stop = AtomicU64::new(u64::MAX);
        let beat = Beat::default();
        for i in 0..n {
            run_one(a.seed, i, &known, &mut st, &stop, Kind::Random, &beat);
            if st.first_fail.is_some() {
                break;
            }
        }
        ON_MAIN_THREAD.with(|m| m.set(false));
        st.probes.add("runs_repeated_on_the_main_thread", st.runs);
        let ff = st.first_fail.clone();
        total.merge(st);
        if let Some((idx, fails)) = ff {
            failing = Some((a.seed, idx, fails, Kind::Random));
            main_thread_failure = true;
        }
    }
    // quick: a thin validity-gate lattice over every biased exponent of the high word
    if failing.is_none() && (a.lattice || (a.tier == "quick" && a.sweep.is_none() && a.runs.is_none())) {
        let b = run_batch_kind(a.seed, 2048, a.workers, &known, Kind::ThinLattice);
        let ff = b.first_fail.clone();
        total.merge(b);
        if let Some((idx, fails)) = ff {
            failing = Some((a.seed, idx, fails, Kind::ThinLattice));
        }
    }
    // thorough: systematic single-fault-position sweep over sampled values
    let sweep_values = a.sweep.unwrap_or(if a.tier == "thorough" { 4000 } else { 0 });
    if failing.is_none() && sweep_values > 0 {
        let b = run_batch_kind(a.seed, sweep_values, a.workers, &known, Kind::Sweep);
        let ff = b.first_fail.clone();
        total.merge(b);
        if let Some((idx, fails)) = ff {
            failing = Some((a.seed, idx, fails, Kind::Sweep));
        }
    }
    let wall = t0.elapsed().as_secs_f64();
    for (k, n) in &total.known_hits {
        println!("KNOWN-FINDING: property={PROPERTY} {} ({} occurrences)", known.findings[*k].what, n);
    }
    let mut exit = 0;
    let mut nviol = 0u64;
    let mut violation_printed = false;
    let mut unreproduced = false;
    let mut seq_reported: BTreeSet<String> = BTreeSet::new();
    if !total.harness_errors.is_empty() {
        for e in total.harness_errors.iter().take(5) {
            eprintln!("HARNESS ERROR: {e}");
        }
        exit = 2;
    }
    if let Some((base, idx, fails, fail_kind)) = failing {
        let replay_dir = out_dir.join("replays");
        let _ = std::fs::create_dir_all(&replay_dir);
        let mut seen = BTreeSet::new();
        for (leg, case, viols) in fails {
            for v in viols {
                if !seen.insert((leg, v.class.clone())) {
                    continue;
                }
                nviol += 1;
                let (min_step, steps) = minimise(&case, &v.class, &known);
                let final_v = has_class(&min_step.execute(), &v.class).unwrap_or(v.clone());
                let (rec, bytes) = informational(&min_step.case);
                let rf = ReplayFile {
                    property: PROPERTY.into(),
                    class: v.class.clone(),
                    detail: final_v.detail.clone(),
                    base_seed: base,
                    run_index: idx,
                    minimised: true,
                    shrink_steps: steps,
                    config_label: a.config_label.clone(),
                    stack_kib: min_step.stack_kib,
                    on_main_thread: main_thread_failure,
                    history: min_step.history,
                    case: min_step.case,
                    delivered_record: rec,
                    delivered_bytes: bytes,
                    sequence: None,
                    original_history: case.history.clone(),
                    original_case: case.case.clone(),
                };
                let label = a.config_label.as_deref().map(|l| format!("-{l}")).unwrap_or_default();
                let path = replay_dir.join(format!("{PROPERTY}{label}-{base}-{idx}-{}-{}.json", LEG_NAMES[leg], v.class));
                if let Err(e) = std::fs::write(&path, serde_json::to_string_pretty(&rf).unwrap() + "\n") {
                    eprintln!("HARNESS ERROR: cannot write replay file: {e}");
                    std::process::exit(2);
                }
                // replay the minimised file in a fresh process: must fail the same way
                let mut report: Option<PathBuf> = Some(path.clone());
                let mut lines = vec![
                    format!("violation class={} leg={} base_seed={base} run={idx} shrink_steps={steps}", v.class, LEG_NAMES[leg]),
                    format!("  {}", final_v.detail),
                ];
                if !a.no_respawn {
                    let exe = std::env::current_exe().expect("current_exe");
                    let mut cmd = std::process::Command::new(exe);
                    cmd.args(["--replay", path.to_str().unwrap(), "--verif-dir", a.verif_dir.to_str().unwrap()]);
                    if let Some(l) = &a.config_label {
                        cmd.args(["--config-label", l]);
                    }
                    let out = cmd.output();
                    let ok = match &out {
                        Ok(o) => {
                            let so = String::from_utf8_lossy(&o.stdout);
                            o.status.code() == Some(1) && so.contains(&format!("REPRODUCED class={} detail_identical=true", v.class))
                        }
                        Err(_) => false,
                    };
                    if !ok {
                        // The violation needs state left behind by other operations of this process.
                        // Reproduce it as a window of whole runs on one thread of a fresh process,
                        // then shrink the window from the front. The single-operation file is
                        // withdrawn: it does not reproduce.
                        let _ = std::fs::remove_file(&path);
                        eprintln!(
                            "note: {} in leg {} of run {idx} does not fail as a single operation in a fresh process: looking for the history it needs",
                            v.class, LEG_NAMES[leg]
                        );
                        let total_runs = match fail_kind {
                            Kind::Random => runs,
                            Kind::ThinLattice => 2048,
                            Kind::Sweep => a.sweep.unwrap_or(if a.tier == "thorough" { 4000 } else { 0 }),
                        };
                        match find_sequence(base, fail_kind, idx, total_runs, &a) {
                            Some((spec, leg2, v2)) => {
                                let key = serde_json::to_string(&spec).unwrap_or_default();
                                if !seq_reported.insert(key) {
                                    // the same window was already reported for another symptom of this run
                                    report = None;
                                    nviol -= 1;
                                } else {
                                    let rf2 = ReplayFile {
                                        property: PROPERTY.into(),
                                        class: v2.class.clone(),
                                        detail: v2.detail.clone(),
                                        base_seed: base,
                                        run_index: spec.to,
                                        minimised: true,
                                        shrink_steps: 0,
                                        config_label: a.config_label.clone(),
                                        stack_kib: None,
                                        on_main_thread: false,
                                        history: Vec::new(),
                                        case: case.case.clone(),
                                        delivered_record: None,
                                        delivered_bytes: None,
                                        sequence: Some(spec.clone()),
                                        original_history: case.history.clone(),
                                        original_case: case.case.clone(),
                                    };
                                    let wpath = replay_dir.join(format!("{PROPERTY}{label}-{base}-{}-{}-{}-window.json", spec.to, LEG_NAMES[leg2], v2.class));
                                    if let Err(e) = std::fs::write(&wpath, serde_json::to_string_pretty(&rf2).unwrap() + "\n") {
                                        eprintln!("HARNESS ERROR: cannot write replay file: {e}");
                                        std::process::exit(2);
                                    }
                                    lines = vec![
                                        format!(
                                            "violation class={} leg={} base_seed={base} run={} history=runs {}..={}{} on one thread (state-dependent)",
                                            v2.class,
                                            LEG_NAMES[leg2],
                                            spec.to,
                                            spec.from,
                                            spec.to,
                                            if spec.stride > 1 { format!(" step {}", spec.stride) } else { String::new() }
                                        ),
                                        format!("  {}", v2.detail),
                                    ];
                                    report = Some(wpath);
                                }
                            }
                            None => {
                                eprintln!(
                                    "HARNESS ERROR: {} in leg {} of run {idx} reproduces neither as a single operation nor as a run window in a fresh process (state shared across worker threads or left by an earlier batch?)",
                                    v.class, LEG_NAMES[leg]
                                );
                                report = None;
                                nviol -= 1;
                                unreproduced = true;
                            }
                        }
                    }
                }
                if let Some(p) = report {
                    for l in &lines {
                        println!("{l}");
                    }
                    println!("VIOLATION property={PROPERTY} replay={}", p.display());
                    violation_printed = true;
                }
            }
        }
    }
    // a reported violation takes precedence over a harness error
    if violation_printed {
        exit = 1;
    } else if unreproduced {
        exit = 2;
    }
    if let Some(sp) = &a.summary_only {
        let mut tp = total.probes.clone();
        tp.merge(&total.probes_fault_free);
        let summary = serde_json::json!({
            "configuration": a.config_label.clone().unwrap_or_else(|| "secondary".into()),
            "simulated_runs": total.runs,
            "legs_executed": total.legs,
            "legs_under_planned_faults": total.legs_faulted,
            "distinct_faulted_seam_traces": total.sigs_faulted.len(),
            "fault_kinds_fired": total.faults_fired.0.len(),
            "violations": nviol,
            "exit": exit,
            "wall_s": wall,
            "batch_digest": format!("{:016x}", total.digest),
        });
        if let Err(e) = std::fs::write(sp, serde_json::to_string_pretty(&summary).unwrap() + "\n") {
            eprintln!("HARNESS ERROR: cannot write summary: {e}");
            std::process::exit(2);
        }
    } else {
        let mut extra = Vec::new();
        for p in &a.merge_summaries {
            match std::fs::read_to_string(p).ok().and_then(|t| serde_json::from_str::<serde_json::Value>(&t).ok()) {
                Some(v) => extra.push(v),
                None => {
                    eprintln!("HARNESS ERROR: cannot read configuration summary {}", p.display());
                    std::process::exit(2);
                }
            }
        }
        for l in &a.skipped_configs {
            extra.push(serde_json::json!({"configuration": l, "skipped": "twofloat itself does not build in this feature set on the tree under test"}));
        }
        for l in &a.failed_configs {
            let (label, status) = l.split_once(':').unwrap_or((l.as_str(), "?"));
            extra.push(serde_json::json!({"configuration": label, "ended_without_summary": true, "exit_status": status,
                "note": "the simulator of this configuration ended by a watchdog HANG report, a crash or a timeout: see its own output and replay file"}));
        }
        // violations reported by the secondary configurations count too
        let nviol_all = nviol + extra.iter().map(|e| e.get("violations").and_then(|v| v.as_u64()).unwrap_or(0) + if e.get("ended_without_summary").is_some() { 1 } else { 0 }).sum::<u64>();
        let ev_path = out_dir.join("evidence").join(format!("{PROPERTY}.json"));
        if let Err(e) = write_evidence(&ev_path, &a.tier, a.seed, &seeds, runs, a.workers, &total, wall, nviol_all, &known, &extra) {
            eprintln!("HARNESS ERROR: cannot write evidence: {e}");
            std::process::exit(2);
        }
    }
    let mut tp = total.probes.clone();
    tp.merge(&total.probes_fault_free);
    println!(
        "runs={} legs={} (faulted {} / fault-free {}) seam_events={} distinct_faulted_traces={} wall={:.1}s ({:.0} runs/s) digest={:016x}",
        total.runs,
        total.legs,
        total.legs_faulted,
        total.legs_fault_free,
        total.steps,
        total.sigs_faulted.len(),
        wall,
        total.runs as f64 / wall.max(1e-9),
        total.digest
    );
    let zp: Vec<&&str> = REQUIRED_PROBES.iter().filter(|p| tp.get(p) == 0).collect();
    let zf: Vec<&&str> = REQUIRED_FAULTS.iter().filter(|p| total.faults_fired.get(p) == 0).collect();
    if !zp.is_empty() || !zf.is_empty() {
        println!("note: required probes at zero: {:?}; fault kinds at zero: {:?}", zp, zf);
    }
    if a.config_label.is_none() {
        let ind = vocab::state_and_environment_indicators();
        if !ind.is_empty() {
            println!(
                "note: the crate's sources contain constructs that can make behaviour depend on history or environment ({} places, e.g. {}); the simulation samples such dependence through histories and run windows but cannot rule it out",
                ind.len(),
                ind[0]
            );
        }
    }
    if exit == 0 {
        println!(
            "OK property={PROPERTY} held on everything explored{}",
            a.config_label.as_deref().map(|l| format!(" (configuration: {l})")).unwrap_or_default()
        );
    }
    std::process::exit(exit);
}
