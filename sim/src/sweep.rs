//! Thorough tier only: for each sampled value, enumerate every position of
//! every single-fault plan (every sink chunk and capacity, every serializer
//! call site, every access call of every presentation of the intact and of
//! singly-damaged records, every writer call, every truncation length / read
//! failure offset of the stored bytes). The values are still drawn from the
//! seeded generator; what is exhaustive is the fault position for each of them.

use crate::common::*;
use crate::deleg::{self, DeCase, Delivery, StorageFault};
use crate::fmtleg::{self, FmtCase, SinkPlan, Tr};
use crate::jsonleg::{Api, ByteFault, Host, JsonReadCase, JsonWriteCase, ReaderPlan, SimWriter, WriterPlan};
use crate::prng::{run_seed, Rng};
use crate::serleg::SerCase;
use crate::simformat::{CallFault, Hint, KeyKind, Mode, Slot};
use crate::tomlleg::{TomlCase, TomlHost};
use crate::values::{self, GenStats, Val};
use crate::Case;

/// Quick tier: only a thin validity-gate lattice for biased exponent `index`.
pub fn thin_lattice_cases(base: u64, index: u64, st: &mut GenStats) -> (Val, Vec<Case>) {
    let mut r = Rng::new(run_seed(base ^ 0x7A77_1CE5, index));
    let v = values::gen_value(&mut r, st);
    let mut out = Vec::new();
    if index <= 2047 {
        lattice_cases(index, &mut r, &mut out, true);
    }
    (v, out)
}

pub fn sweep_cases(base: u64, index: u64, st: &mut GenStats) -> (Val, Vec<Case>) {
    let mut r = Rng::new(run_seed(base ^ 0x5_3EE9_5EE9, index));
    let v = values::gen_value(&mut r, st);
    let (hi, lo) = (v.hi, v.lo);
    let mut out: Vec<Case> = Vec::new();
    let x = raw_twofloat(hi, lo);

    // ---- formatting: every chunk index and every capacity, both sink kinds of failure
    for tr in [Tr::Display, Tr::LowerExp, Tr::UpperExp] {
        for plus in [false, true] {
            for prec in [None, Some(0usize), Some(1), Some(17), Some(40), Some(300)] {
                let base_case = FmtCase { hi, lo, tr, plus, prec, sink: SinkPlan::default(), io: None, flags: None };
                let (nchunks, nbytes) = match guarded(|| fmtleg::render_ideal(&x, &base_case)) {
                    Ok((_, text, n)) => (n, text.len()),
                    Err(_) => (1, 1),
                };
                out.push(Case::Fmt(base_case.clone()));
                for sticky in [false, true] {
                    for k in 0..nchunks {
                        out.push(Case::Fmt(FmtCase { sink: SinkPlan { fail_at_chunk: Some(k), capacity: None, sticky, reentrant_hi: None, reentrant_depth: None, reentrant_spec: None }, ..base_case.clone() }));
                    }
                    let step = (nbytes / 120).max(1);
                    let mut cap = 0;
                    while cap < nbytes {
                        out.push(Case::Fmt(FmtCase { sink: SinkPlan { fail_at_chunk: None, capacity: Some(cap), sticky, reentrant_hi: None, reentrant_depth: None, reentrant_spec: None }, ..base_case.clone() }));
                        cap += step;
                    }
                }
                // io::Write target: every call fails hard / returns Ok(0)
                let ideal = WriterPlan::default();
                let mut w = SimWriter::new(&ideal);
                let ncalls = match guarded(|| fmtleg::render_tf_io(&mut w, &x, tr, plus, prec)) {
                    Ok(_) => w.calls,
                    Err(_) => 1,
                };
                for k in 0..ncalls.min(64) {
                    out.push(Case::Fmt(FmtCase { io: Some(WriterPlan { fail_at_call: Some(k), ..Default::default() }), ..base_case.clone() }));
                    out.push(Case::Fmt(FmtCase { io: Some(WriterPlan { zero_at_call: Some(k), ..Default::default() }), ..base_case.clone() }));
                }
                out.push(Case::Fmt(FmtCase { io: Some(WriterPlan { max_chunk: Some(1), ..Default::default() }), ..base_case.clone() }));
            }
        }
    }

    // ---- formatting, fault-free: every precision 0..=64 and a few large ones, every trait and flag
    for tr in [Tr::Display, Tr::LowerExp, Tr::UpperExp] {
        for plus in [false, true] {
            for p in (0usize..=64).chain([100, 127, 128, 255, 256, 257, 511, 512, 1000, 1100, 3000, 30_000, 32_767, 32_768, 65_534]) {
                out.push(Case::Fmt(FmtCase { hi, lo, tr, plus, prec: Some(p), sink: SinkPlan::default(), io: None, flags: None }));
            }
        }
    }

    // ---- serializer: every call site, both failure kinds, both format kinds
    for human_readable in [true, false] {
        out.push(Case::Ser(SerCase { hi, lo, fault: None, human_readable }));
        for at in 0..5 {
            for sticky in [false, true] {
                out.push(Case::Ser(SerCase { hi, lo, fault: Some(CallFault { at, sticky }), human_readable }));
            }
        }
    }

    // ---- deserializer: intact and singly-damaged records, every presentation, every access call
    let mut damages: Vec<Vec<StorageFault>> = vec![vec![]];
    for e in 0..2 {
        for to in 0..3 {
            damages.push(vec![StorageFault::DuplicateEntry { from: e, to }]);
        }
        damages.push(vec![StorageFault::DropEntry { entry: e }]);
        damages.push(vec![StorageFault::RenameKey { entry: e, name: "secs".into() }]);
        damages.push(vec![StorageFault::TypeConfuse { entry: e, slot: Slot::Unit }]);
        damages.push(vec![StorageFault::BitFlip { entry: e, bit: 63 }]);
        damages.push(vec![StorageFault::BitFlip { entry: e, bit: 52 }]);
        damages.push(vec![StorageFault::BitFlip { entry: e, bit: 0 }]);
    }
    for at in 0..3 {
        damages.push(vec![StorageFault::InsertUnknown { at, name: "nanos".into(), slot: Slot::F64(0) }]);
    }
    for tokens in 0..4 {
        damages.push(vec![StorageFault::Truncate { tokens }]);
    }
    damages.push(vec![StorageFault::WordSwap]);
    damages.push(vec![StorageFault::WordDup]);
    for (mode, lo_first) in [(Mode::Seq, false), (Mode::Map, false), (Mode::Map, true)] {
        for faults in &damages {
            for strict_end in [true, false] {
                for (honour_fields, human_readable) in [(false, true), (true, true), (false, false)] {
                    if honour_fields && mode != Mode::Map {
                        continue;
                    }
                    let c0 = DeCase {
                        hi,
                        lo,
                        mode,
                        lo_first,
                        kinds: vec![KeyKind::Str, KeyKind::Borrowed, KeyKind::Owned],
                        faults: faults.clone(),
                        hint: Hint::Exact,
                        strict_end,
                        access_fault: None,
                        honour_fields,
                        human_readable,
                        typed_requests: !human_readable,
                    };
                    let es = deleg::derive_stream(&c0);
                    let ncalls = match deleg::run_twofloat(&es, &Delivery { fault: None, ..c0.delivery() }) {
                        Ok(o) => o.calls,
                        Err(_) => 1,
                    };
                    out.push(Case::De(c0.clone()));
                    for at in 0..=ncalls {
                        for sticky in [false, true] {
                            out.push(Case::De(DeCase { access_fault: Some(CallFault { at, sticky }), ..c0.clone() }));
                        }
                    }
                }
            }
        }
    }

    // ---- JSON writer: every call
    for pretty in [false, true] {
        let ideal = WriterPlan::default();
        let mut w = SimWriter::new(&ideal);
        let ncalls = match guarded(|| if pretty { serde_json::to_writer_pretty(&mut w, &x) } else { serde_json::to_writer(&mut w, &x) }) {
            Ok(_) => w.calls,
            Err(_) => 1,
        };
        for k in 0..ncalls {
            for sticky in [false, true] {
                out.push(Case::JsonWrite(JsonWriteCase { hi, lo, pretty, plan: WriterPlan { fail_at_call: Some(k), sticky, ..Default::default() } }));
                out.push(Case::JsonWrite(JsonWriteCase { hi, lo, pretty, plan: WriterPlan { zero_at_call: Some(k), sticky, ..Default::default() } }));
            }
        }
        out.push(Case::JsonWrite(JsonWriteCase { hi, lo, pretty, plan: WriterPlan { max_chunk: Some(1), ..Default::default() } }));
    }

    // ---- JSON reader: every truncation length, every hard-failure offset, every early EOF
    let (h, l) = (f64::from_bits(hi), f64::from_bits(lo));
    let nh = serde_json::to_string(&h).unwrap_or_default();
    let nl = serde_json::to_string(&l).unwrap_or_default();
    let texts = [
        (format!("{{\"hi\":{nh},\"lo\":{nl}}}"), "object_hi_lo/valid/bare", Host::Bare),
        (format!("{{\"lo\":{nl},\"hi\":{nh}}}"), "object_lo_hi/valid/bare", Host::Bare),
        (format!("[{nh},{nl}]"), "array_2/valid/bare", Host::Bare),
        (format!("{{\"id\":7,\"hi\":{nh},\"lo\":{nl}}}"), "object_hi_lo/valid/flatten", Host::Flatten),
        (format!("{{\"hi\":{nh},\"lo\":{nl}}}\n{{\"hi\":{nh},\"lo\":{nl}}}\n"), "object_hi_lo/valid/stream", Host::Stream),
    ];
    for (text, kind, host) in texts {
        let n = text.len();
        let mk = |faults: Vec<ByteFault>, api: Api, plan: ReaderPlan| {
            Case::JsonRead(JsonReadCase { base: text.clone(), base_kind: kind.to_string(), host, faults, api, plan })
        };
        out.push(mk(vec![], Api::FromSlice, ReaderPlan::default()));
        for k in 0..n {
            out.push(mk(vec![ByteFault::Truncate { len: k }], Api::FromSlice, ReaderPlan::default()));
            out.push(mk(vec![], Api::FromReader, ReaderPlan { fail_at_offset: Some(k), ..Default::default() }));
            out.push(mk(vec![], Api::FromReader, ReaderPlan { eof_at: Some(k), max_chunk: Some(3), ..Default::default() }));
        }
        out.push(mk(vec![], Api::FromReader, ReaderPlan { fail_at_offset: Some(n), ..Default::default() }));
    }

    // ---- TOML: every truncation length of the stored text
    let th = format!("{:e}", h);
    let tl = format!("{:e}", l);
    for (text, host) in [(format!("hi = {th}\nlo = {tl}\n"), TomlHost::Bare), (format!("id = 7\nlo = {tl}\nhi = {th}\n"), TomlHost::Flatten)] {
        for k in 0..=text.len() {
            out.push(Case::Toml(TomlCase { base: text.clone(), base_kind: format!("sweep/{:?}", host), host, faults: vec![ByteFault::Truncate { len: k }] }));
        }
    }
    // ---- validity-gate lattice: sweep index i also stands for the biased exponent i of the
    // delivered high word (0 = zero/subnormal, 2047 = non-finite); every threshold
    // neighbourhood of the low word, delivered as seq and as map in both key orders
    if index <= 2047 {
        lattice_cases(index, &mut r, &mut out, false);
    }
    (v, out)
}

fn lattice_cases(e: u64, r: &mut Rng, out: &mut Vec<Case>, thin: bool) {
    use crate::values::{next_down_bits, next_up_bits, pow2, MANT_MASK, SIGN};
    let mants: Vec<u64> = if thin {
        vec![0, 1, MANT_MASK, r.next_u64() & MANT_MASK & !1, (r.next_u64() & MANT_MASK) | 1]
    } else { vec![
        0,
        1,
        2,
        3,
        MANT_MASK,
        MANT_MASK - 1,
        MANT_MASK - 2,
        1 << 51,
        (1 << 51) | 1,
        0xA_AAAA_AAAA_AAAA & MANT_MASK,
        0x5_5555_5555_5555 & MANT_MASK,
        r.next_u64() & MANT_MASK,
        r.next_u64() & MANT_MASK & !1,
        (r.next_u64() & MANT_MASK) | 1,
    ] };
    for m in mants {
        for hs in [0u64, SIGN] {
            let hi = hs | (e << 52) | m;
            let hf = f64::from_bits(hi);
            let mut los: Vec<u64> = if thin {
                vec![0, 1, f64::INFINITY.to_bits(), f64::NAN.to_bits()]
            } else {
                vec![0, 1, 2, f64::INFINITY.to_bits(), f64::NAN.to_bits(), f64::MAX.to_bits(), hi & !SIGN, r.next_u64() & !SIGN]
            };
            if hf.is_normal() {
                let ex = values::exponent(hf);
                let ks: &[i32] = if thin { &[-53, -54] } else { &[-52, -53, -54, -55, -51] };
                for k in ks.iter().map(|d| ex + d) {
                    if (-1074..=1023).contains(&k) {
                        let t = pow2(k).to_bits();
                        los.extend([t, next_up_bits(t), next_down_bits(t), next_up_bits(next_up_bits(t)), t | (r.next_u64() & MANT_MASK)]);
                    }
                }
                // something comfortably inside
                if ex - 60 >= -1074 {
                    los.push(pow2(ex - 60).to_bits() | (r.next_u64() & MANT_MASK));
                }
            }
            los.sort_unstable();
            los.dedup();
            for l in los {
                for ls in [0u64, SIGN] {
                    let lo = l | ls;
                    let modes: &[(Mode, bool)] = if thin { &[(Mode::Seq, false), (Mode::Map, true)] } else { &[(Mode::Seq, false), (Mode::Map, false), (Mode::Map, true)] };
                    for (mode, lo_first) in modes.iter().copied() {
                        let (e_hi, e_lo) = if lo_first { (1, 0) } else { (0, 1) };
                        out.push(Case::De(DeCase {
                            hi: 1.0f64.to_bits(),
                            lo: 0,
                            mode,
                            lo_first,
                            kinds: vec![KeyKind::Str],
                            faults: vec![
                                StorageFault::SetWord { entry: e_hi, bits: hi, label: "lattice_hi".into() },
                                StorageFault::SetWord { entry: e_lo, bits: lo, label: "lattice_lo".into() },
                            ],
                            hint: Hint::Exact,
                            strict_end: true,
                            access_fault: None,
                            honour_fields: false,
                            human_readable: true,
                            typed_requests: false,
                        }));
                    }
                }
            }
        }
    }
}
