//! Leg A — formatting through a simulated `fmt::Write` sink (DESIGN.md §3).

use crate::common::*;
use crate::iosim::{SimWriter, WriterPlan};
use crate::prng::{Hash64, Rng};
use crate::values::{hexword, ref_valid_bits, SIGN};
use serde::{Deserialize, Serialize};
use std::fmt::{self, Write};
use twofloat::TwoFloat;

#[derive(Clone, Copy, Debug, Serialize, Deserialize, PartialEq, Eq)]
pub enum Tr {
    Display,
    LowerExp,
    UpperExp,
}

#[derive(Clone, Debug, Serialize, Deserialize, PartialEq, Default)]
pub struct SinkPlan {
    /// the k-th `write_str` call (0-based) is refused
    pub fail_at_chunk: Option<usize>,
    /// "disk full": a chunk that would make the sink exceed this many bytes is refused whole
    pub capacity: Option<usize>,
    /// after the first refusal every later call is refused too (otherwise the
    /// sink recovers and accepts later chunks — which exposes an implementation
    /// that ignores the error and carries on)
    pub sticky: bool,
    /// re-entrancy: while handling its first chunk the sink itself formats another TwoFloat
    /// (this high word, zero low word) with `{}` into a scratch string — what a logging or
    /// tee-ing writer may do. It must not disturb the outer rendering.
    #[serde(default, skip_serializing_if = "Option::is_none")]
    pub reentrant_hi: Option<String>,
    /// how deep the re-entrancy goes: the scratch sink of the re-entrant rendering itself formats
    /// the same value on its first chunk, and so on, until this many renderings of the crate's
    /// `Display` are live at once on one thread (absent = 1). A chain of tee-ing writers does
    /// this; an implementation that draws on a bounded shared resource per live rendering (a
    /// buffer pool, a fixed table) meets its exhausted path only here.
    #[serde(default, skip_serializing_if = "Option::is_none")]
    pub reentrant_depth: Option<u32>,
    /// (trait, `+`, precision) the re-entrant renderings are made with; absent = plain `{}`
    #[serde(default, skip_serializing_if = "Option::is_none")]
    pub reentrant_spec: Option<(Tr, bool, Option<usize>)>,
}

/// Deepest re-entrancy a plan may ask for (bounds the stack a step needs).
pub const MAX_REENTRANT_DEPTH: u32 = 160;

/// Scratch sink of a re-entrant rendering; while `remaining > 0` it re-enters once more on its
/// first chunk. Never refuses a chunk.
struct NestSink<'b> {
    remaining: u32,
    inner: &'b TwoFloat,
    outs: &'b mut Vec<(bool, String, u64)>,
    /// the same high word with a low word of -0.0: levels alternate between the two, so that
    /// neighbouring live renderings differ in their sign character
    inner_neg: &'b TwoFloat,
    spec: (Tr, bool, Option<usize>),
    data: String,
    first: bool,
}

impl Write for NestSink<'_> {
    fn write_str(&mut self, s: &str) -> fmt::Result {
        if self.first {
            self.first = false;
            if self.remaining > 0 {
                let neg = self.remaining % 2 == 1;
                let x = if neg { self.inner_neg } else { self.inner };
                let mut n = NestSink { remaining: self.remaining - 1, inner: self.inner, inner_neg: self.inner_neg, outs: &mut *self.outs, spec: self.spec, data: String::new(), first: true };
                let r = render_tf(&mut n, x, self.spec.0, self.spec.1, self.spec.2);
                let text = std::mem::take(&mut n.data);
                drop(n);
                self.outs.push((r.is_ok(), text, if neg { SIGN } else { 0 }));
            }
        }
        self.data.push_str(s);
        Ok(())
    }
}

impl SinkPlan {
    pub fn depth(&self) -> u32 {
        self.reentrant_depth.unwrap_or(1).clamp(1, MAX_REENTRANT_DEPTH)
    }
    pub fn spec(&self) -> (Tr, bool, Option<usize>) {
        self.reentrant_spec.unwrap_or((Tr::Display, false, None))
    }
    pub fn is_faulty(&self) -> bool {
        self.fail_at_chunk.is_some() || self.capacity.is_some() || self.reentrant_hi.is_some()
    }
}

#[derive(Clone, Debug, Serialize, Deserialize, PartialEq)]
pub struct FmtCase {
    #[serde(with = "hexword")]
    pub hi: u64,
    #[serde(with = "hexword")]
    pub lo: u64,
    pub tr: Tr,
    pub plus: bool,
    pub prec: Option<usize>,
    pub sink: SinkPlan,
    /// when present the value is formatted into a simulated `io::Write`
    /// (`write!(file, "{}", x)`: std's io::Write::write_fmt adapter sits
    /// between the formatter and the stream) instead of the `fmt::Write` sink
    #[serde(default)]
    pub io: Option<WriterPlan>,
    /// further formatter flags (alignment, width, `#`, `0`), by preset index of
    /// `fmtspecs::PRESET_NAMES`, and the width. C20 constrains plain / + / .p / +.p "however the
    /// formatter was obtained"; what an implementation does with a width is its own business, so
    /// the oracle accepts numerals rendered with or without these flags (see `check_content`).
    #[serde(default)]
    pub flags: Option<FlagSpec>,
}

#[derive(Clone, Copy, Debug, Serialize, Deserialize, PartialEq)]
pub struct FlagSpec {
    pub preset: usize,
    pub width: usize,
}

/// The simulated sink: append-only byte store with a fault plan.
pub struct SimSink<'a> {
    plan: &'a SinkPlan,
    pub data: String,
    pub calls: usize,
    pub fired_chunk: bool,
    pub fired_capacity: bool,
    pub dead: bool,
    pub writes_after_refusal: u64,
    pub reentered: bool,
    /// (high word, fmt result ok, text) of the rendering the sink made re-entrantly
    pub reentered_output: Option<(u64, bool, String)>,
    /// (fmt result ok, text) of every deeper rendering of the same value (innermost first)
    pub reentered_nested: Vec<(bool, String, u64)>,
    pub log: Hash64,
    pub sig: Hash64,
}

impl<'a> SimSink<'a> {
    pub fn new(plan: &'a SinkPlan) -> Self {
        SimSink {
            plan,
            data: String::new(),
            calls: 0,
            fired_chunk: false,
            fired_capacity: false,
            dead: false,
            writes_after_refusal: 0,
            reentered: false,
            reentered_output: None,
            reentered_nested: Vec::new(),
            log: Hash64::default(),
            sig: Hash64::default(),
        }
    }
    pub fn fired(&self) -> bool {
        self.fired_chunk || self.fired_capacity
    }
}

impl Write for SimSink<'_> {
    fn write_str(&mut self, s: &str) -> fmt::Result {
        let idx = self.calls;
        self.calls += 1;
        if self.calls as u64 > STEP_CAP {
            panic!("simulator step cap exceeded in sink");
        }
        self.log.str(s);
        if idx == 0 {
            if let Some(h) = self.plan.reentrant_hi.as_deref().and_then(|t| crate::values::parse_hex(t).ok()) {
                if f64::from_bits(h).is_finite() {
                    let inner = raw_twofloat(h, 0);
                    let mut outs = Vec::new();
                    let spec = self.plan.spec();
                    let inner_neg = raw_twofloat(h, SIGN);
                    let mut scratch = NestSink { remaining: self.plan.depth() - 1, inner: &inner, inner_neg: &inner_neg, outs: &mut outs, spec, data: String::new(), first: true };
                    let r = render_tf(&mut scratch, &inner, spec.0, spec.1, spec.2);
                    let text = std::mem::take(&mut scratch.data);
                    drop(scratch);
                    self.reentered = true;
                    self.reentered_output = Some((h, r.is_ok(), text));
                    self.reentered_nested = outs;
                }
            }
        }
        if self.fired() {
            self.writes_after_refusal += 1;
        }
        let refuse = if self.dead {
            true
        } else if self.plan.fail_at_chunk == Some(idx) {
            self.fired_chunk = true;
            true
        } else if matches!(self.plan.capacity, Some(c) if self.data.len() + s.len() > c) {
            self.fired_capacity = true;
            true
        } else {
            false
        };
        if refuse {
            if self.plan.sticky {
                self.dead = true;
            }
            self.log.byte(0xEE);
            self.sig.byte(0xEE);
            return Err(fmt::Error);
        }
        self.data.push_str(s);
        self.log.byte(0x01);
        // abstract signature: chunk length class only
        self.sig.byte(match s.len() {
            0 => 0,
            1 => 1,
            2..=8 => 2,
            9..=63 => 3,
            _ => 4,
        });
        Ok(())
    }
}

macro_rules! spec_dispatch {
    ($w:expr, $x:expr, $tr:expr, $plus:expr, $prec:expr) => {
        match ($tr, $plus, $prec) {
            (Tr::Display, false, None) => write!($w, "{}", $x),
            (Tr::Display, true, None) => write!($w, "{:+}", $x),
            (Tr::Display, false, Some(p)) => write!($w, "{:.*}", p, $x),
            (Tr::Display, true, Some(p)) => write!($w, "{:+.*}", p, $x),
            (Tr::LowerExp, false, None) => write!($w, "{:e}", $x),
            (Tr::LowerExp, true, None) => write!($w, "{:+e}", $x),
            (Tr::LowerExp, false, Some(p)) => write!($w, "{:.*e}", p, $x),
            (Tr::LowerExp, true, Some(p)) => write!($w, "{:+.*e}", p, $x),
            (Tr::UpperExp, false, None) => write!($w, "{:E}", $x),
            (Tr::UpperExp, true, None) => write!($w, "{:+E}", $x),
            (Tr::UpperExp, false, Some(p)) => write!($w, "{:.*E}", p, $x),
            (Tr::UpperExp, true, Some(p)) => write!($w, "{:+.*E}", p, $x),
        }
    };
}

/// Code under test: the crate's three format impls, reached through the real
/// `core::fmt` machinery.
pub fn render_tf(w: &mut dyn Write, x: &TwoFloat, tr: Tr, plus: bool, prec: Option<usize>) -> fmt::Result {
    spec_dispatch!(w, x, tr, plus, prec)
}

fn tr_index(tr: Tr) -> u8 {
    match tr {
        Tr::Display => 0,
        Tr::LowerExp => 1,
        Tr::UpperExp => 2,
    }
}

/// Code under test, reached with the full flag set of the case.
pub fn render_case(w: &mut dyn Write, x: &TwoFloat, c: &FmtCase) -> fmt::Result {
    match c.flags {
        Some(fl) => crate::fmtspecs::render_preset(w, x, fl.preset, tr_index(c.tr), fl.width, c.prec),
        None => render_tf(w, x, c.tr, c.plus, c.prec),
    }
}

/// A numeral without zero padding: optional sign, then the integer part stripped of leading zeros.
fn strip_padding(t: &str) -> String {
    let t = t.trim();
    let (sign, rest) = match t.chars().next() {
        Some(c @ ('+' | '-')) => (Some(c), &t[1..]),
        _ => (None, t),
    };
    let rest = rest.trim_start_matches('0');
    let mut out = String::new();
    if let Some(c) = sign {
        out.push(c);
    }
    if !rest.chars().next().map(|c| c.is_ascii_digit()).unwrap_or(false) {
        out.push('0');
    }
    out.push_str(rest);
    out
}

/// The same through `io::Write::write_fmt`.
pub fn render_tf_io(w: &mut dyn std::io::Write, x: &TwoFloat, tr: Tr, plus: bool, prec: Option<usize>) -> std::io::Result<()> {
    spec_dispatch!(w, x, tr, plus, prec)
}

/// Reference: std's own rendering of a plain f64 under the same spec.
pub fn render_f64(x: f64, tr: Tr, plus: bool, prec: Option<usize>) -> String {
    let mut s = String::new();
    let w = &mut s;
    spec_dispatch!(w, x, tr, plus, prec).expect("String sink cannot fail");
    s
}

pub fn branch_probe(tr: Tr, plus: bool, prec: Option<usize>) -> &'static str {
    match (tr, plus, prec.is_some()) {
        (Tr::Display, false, false) => "fmt_branch_display_plain",
        (Tr::Display, true, false) => "fmt_branch_display_plus",
        (Tr::Display, false, true) => "fmt_branch_display_prec",
        (Tr::Display, true, true) => "fmt_branch_display_plus_prec",
        (Tr::LowerExp, false, false) => "fmt_branch_lowerexp_plain",
        (Tr::LowerExp, true, false) => "fmt_branch_lowerexp_plus",
        (Tr::LowerExp, false, true) => "fmt_branch_lowerexp_prec",
        (Tr::LowerExp, true, true) => "fmt_branch_lowerexp_plus_prec",
        (Tr::UpperExp, false, false) => "fmt_branch_upperexp_plain",
        (Tr::UpperExp, true, false) => "fmt_branch_upperexp_plus",
        (Tr::UpperExp, false, true) => "fmt_branch_upperexp_prec",
        (Tr::UpperExp, true, true) => "fmt_branch_upperexp_plus_prec",
    }
}

/// Fault-free rendering into an ideal sink; returns (result, text, chunks).
pub fn render_ideal(x: &TwoFloat, c: &FmtCase) -> (fmt::Result, String, usize) {
    let plan = SinkPlan::default();
    let mut sink = SimSink::new(&plan);
    let r = render_case(&mut sink, x, c);
    (r, sink.data, sink.calls)
}

/// Check the pure clauses F-shape / F-plus / F-prec on a complete rendering.
pub fn check_content(c: &FmtCase, out: &str, v: &mut Vec<Violation>, probes: &mut Counters) {
    let hi = f64::from_bits(c.hi);
    let lo_abs = f64::from_bits(c.lo & !SIGN);
    let want_sign = if c.lo & SIGN != 0 { "-" } else { "+" };
    // with a width the implementation may pad the whole text or each numeral (or ignore the
    // width): tokens are then separated by runs of spaces
    let toks: Vec<&str> = if c.flags.is_some() { out.split(' ').filter(|t| !t.is_empty()).collect() } else { out.split(' ').collect() };
    if toks.len() != 3 || toks.iter().any(|t| t.is_empty()) {
        v.push(viol("FMT_CONTENT", format!("not three space-separated tokens: {:?}", clip(out))));
        return;
    }
    if toks[1] != "+" && toks[1] != "-" {
        v.push(viol("FMT_SIGNCHAR", format!("middle token {:?} is not a sign", toks[1])));
    } else if toks[1] != want_sign {
        v.push(viol(
            "FMT_SIGNCHAR",
            format!("sign char {:?} but sign bit of lo says {:?} (lo={:e})", toks[1], want_sign, f64::from_bits(c.lo)),
        ));
    }
    if c.plus && !(toks[0].starts_with('+') || toks[0].starts_with('-')) {
        v.push(viol("FMT_PLUS", format!("'+' flag but first numeral {:?} has no explicit sign", clip(toks[0]))));
    }
    match c.prec {
        None => {
            // F-shape: both numerals parse back exactly.
            match toks[0].parse::<f64>() {
                Ok(y) if y.to_bits() == c.hi => {}
                other => v.push(viol(
                    "FMT_CONTENT",
                    format!("first numeral {:?} parses to {:?}, want hi={:e}", clip(toks[0]), other.map(|y| y.to_bits()), hi),
                )),
            }
            match toks[2].parse::<f64>() {
                Ok(y) if y.to_bits() == c.lo & !SIGN => {}
                other => v.push(viol(
                    "FMT_CONTENT",
                    format!("second numeral {:?} parses to {:?}, want |lo|={:e}", clip(toks[2]), other.map(|y| y.to_bits()), lo_abs),
                )),
            }
            // trait contract: LowerExp / UpperExp use their exponent marker
            let marker_ok = |t: &str| match c.tr {
                Tr::Display => true,
                Tr::LowerExp => t.contains('e') && !t.contains('E'),
                Tr::UpperExp => t.contains('E') && !t.contains('e'),
            };
            // Not a verdict: C20 as stated asks only that the numerals parse back, so an
            // implementation whose LowerExp output carries no `e` would still conform.
            if !marker_ok(toks[0]) || !marker_ok(toks[2]) {
                probes.hit("fmt_exponent_marker_missing_not_a_verdict");
            }
            // non-verdict statistic: byte equality with std's own rendering
            if c.flags.is_some() {
                probes.hit("fmt_with_width_or_alternate_flags");
            }
            let std_exp = format!(
                "{} {} {}",
                render_f64(hi, c.tr, c.plus, None),
                want_sign,
                render_f64(lo_abs, c.tr, false, None)
            );
            if std_exp == out {
                probes.hit("fmt_plain_equals_std_rendering");
            } else {
                probes.hit("fmt_plain_differs_from_std_rendering");
            }
        }
        Some(p) => {
            let e0 = render_f64(hi, c.tr, c.plus, Some(p));
            let e2 = render_f64(lo_abs, c.tr, false, Some(p));
            // under a width / zero-pad / alignment flag an implementation may apply the flag to the
            // whole text, to each numeral, to the first only, or not at all: numerals are compared
            // modulo padding (spaces are already gone; leading zeros of the integer part are
            // stripped on both sides), the digits at the requested precision must match exactly
            let padded = c.flags.is_some();
            let same = |tok: &str, want: &str| if padded { strip_padding(tok) == strip_padding(want) } else { tok == want };
            if !same(toks[0], &e0) {
                v.push(viol(
                    "FMT_PREC",
                    format!("first numeral {:?} != f64 rendering {:?} at precision {}", clip(toks[0]), clip(&e0), p),
                ));
            }
            // the property wants |lo| rendered at precision p and says nothing about
            // whether the `+` flag reaches the second numeral: accept both spellings
            let e2_plus = format!("+{e2}");
            if !same(toks[2], &e2) && !(c.plus && same(toks[2], &e2_plus)) {
                v.push(viol(
                    "FMT_PREC",
                    format!("second numeral {:?} != f64 rendering {:?} at precision {}", clip(toks[2]), clip(&e2), p),
                ));
            }
        }
    }
}

pub fn clip(s: &str) -> String {
    if s.len() <= 80 {
        s.to_string()
    } else {
        let mut a = 40;
        while !s.is_char_boundary(a) {
            a -= 1;
        }
        let mut b = s.len() - 30;
        while !s.is_char_boundary(b) {
            b += 1;
        }
        format!("{}…({} bytes)…{}", &s[..a], s.len(), &s[b..])
    }
}

pub fn execute(c: &FmtCase) -> LegReport {
    // the `+` flag is part of the preset when further flags are in use: keep the two consistent
    // whatever a shrink step or a hand-edited replay file says
    let fixed;
    let c = match c.flags {
        Some(fl) if fl.preset < crate::fmtspecs::N_PRESETS && c.plus != crate::fmtspecs::PRESET_HAS_PLUS[fl.preset] => {
            fixed = FmtCase { plus: crate::fmtspecs::PRESET_HAS_PLUS[fl.preset], ..c.clone() };
            &fixed
        }
        Some(fl) if fl.preset >= crate::fmtspecs::N_PRESETS => {
            fixed = FmtCase { flags: None, ..c.clone() };
            &fixed
        }
        _ => c,
    };
    let mut rep = LegReport::default();
    if !ref_valid_bits(c.hi, c.lo) {
        rep.violations.push(viol("HARNESS", "fmt case with a value that is not reference-valid"));
        return rep;
    }
    let x = raw_twofloat(c.hi, c.lo);
    rep.probes.hit(branch_probe(c.tr, c.plus, c.prec));
    if let Some(fl) = c.flags {
        rep.probes.hit(crate::fmtspecs::PRESET_NAMES[fl.preset]);
    }
    if c.lo == SIGN {
        rep.probes.hit("fmt_lo_negative_zero");
    }
    if c.lo & !SIGN != 0 && (c.lo & !SIGN) < (1u64 << 52) {
        rep.probes.hit("fmt_lo_subnormal");
    }
    rep.sig.byte(c.tr as u8);
    rep.sig.byte(c.plus as u8);
    rep.sig.byte(match c.prec {
        None => 0,
        Some(0) => 1,
        Some(1..=20) => 2,
        Some(_) => 3,
    });

    // 1. fault-free rendering: the pure clauses
    let ideal = guarded(|| render_ideal(&x, c));
    let (full, nchunks) = match ideal {
        Err(msg) => {
            rep.violations.push(viol("PANIC", format!("fmt panicked on an ideal sink: {msg}")));
            rep.outcome = "panic".into();
            return rep;
        }
        Ok((r, text, n)) => {
            rep.steps += n as u64;
            if r.is_err() {
                rep.violations.push(viol("FMT_SPURIOUS_ERR", "fmt returned Err although the sink accepted every chunk"));
            }
            (text, n)
        }
    };
    rep.log.str(&full);
    if full.len() > 64 {
        rep.probes.hit("fmt_long_rendering_over_64_bytes");
    }
    if nchunks > 20 {
        rep.probes.hit("fmt_over_20_chunks");
    }
    let mut v = Vec::new();
    check_content(c, &full, &mut v, &mut rep.probes);
    rep.violations.extend(v);

    // 2'. formatting into a simulated io::Write
    if let Some(plan) = &c.io {
        rep.faulted = plan.is_faulty();
        rep.probes.hit("fmt_via_io_write");
        let mut w = SimWriter::new(plan);
        let r = guarded(|| render_tf_io(&mut w, &x, c.tr, c.plus, c.prec));
        rep.steps += w.calls as u64;
        rep.log.u64(w.log.finish());
        rep.sig.u64(w.sig.finish());
        if w.interrupts > 0 {
            rep.faults_fired.add("fmt_io_interrupted", w.interrupts as u64);
        }
        if w.shorts > 0 {
            rep.faults_fired.add("fmt_io_short_write", w.shorts as u64);
        }
        if w.hard_fired {
            rep.faults_fired.hit("fmt_io_hard_error");
        }
        if w.zero_fired {
            rep.faults_fired.hit("fmt_io_zero_length_write");
        }
        match r {
            Err(msg) => rep.violations.push(viol("PANIC", format!("fmt into io::Write panicked: {msg}"))),
            Ok(res) => {
                let hard = w.hard_fired || w.zero_fired;
                rep.sig.byte(res.is_ok() as u8);
                rep.sig.byte(hard as u8);
                if hard {
                    if res.is_ok() && w.data != full.as_bytes() {
                        rep.violations.push(viol(
                            "FMT_ACK_INCOMPLETE",
                            format!(
                                "write! into an io::Write returned Ok after the stream failed; it holds {} of {} bytes",
                                w.data.len(),
                                full.len()
                            ),
                        ));
                    } else if res.is_err() {
                        rep.probes.hit("fmt_io_error_propagated");
                    }
                } else if res.is_err() {
                    rep.violations.push(viol("FMT_SPURIOUS_ERR", "write! into an io::Write failed although only short writes / EINTR occurred"));
                } else if w.data != full.as_bytes() {
                    rep.violations.push(viol("FMT_CONTENT", "rendering into an io::Write differs from rendering into a String"));
                } else {
                    rep.probes.hit("fmt_io_benign_faults_transparent");
                }
                if !full.as_bytes().starts_with(&w.data) {
                    rep.violations.push(viol(
                        "FMT_GARBAGE_PREFIX",
                        format!("stream holds {:?}, not a prefix of {:?}", clip(&String::from_utf8_lossy(&w.data)), clip(&full)),
                    ));
                }
                rep.outcome = format!("io::Write {} hard={} {}/{} bytes in {} calls", if res.is_ok() { "Ok" } else { "Err" }, hard, w.data.len(), full.len(), w.calls);
            }
        }
        rep.sig.u64(rep.violations.len() as u64);
        return rep;
    }

    // 2. the same rendering through the faulty sink
    if c.sink.is_faulty() {
        rep.faulted = true;
        let mut sink = SimSink::new(&c.sink);
        let r = guarded(|| render_case(&mut sink, &x, c));
        rep.steps += sink.calls as u64;
        rep.log.u64(sink.log.finish());
        rep.sig.u64(sink.sig.finish());
        if sink.fired_chunk {
            rep.faults_fired.hit(if c.sink.sticky { "sink_fail_at_chunk_sticky" } else { "sink_fail_at_chunk_transient" });
        }
        if sink.fired_capacity {
            rep.faults_fired.hit(if c.sink.sticky { "sink_capacity_sticky" } else { "sink_capacity_transient" });
        }
        if sink.reentered {
            rep.probes.hit("sink_reentrant_formatting");
        }
        // the rendering made re-entrantly from inside the sink is held to the same oracle
        if let Some((h, ok, text)) = sink.reentered_output.take() {
            let (itr, iplus, iprec) = c.sink.spec();
            if c.sink.reentrant_spec.is_some() {
                rep.probes.hit("sink_reentrant_with_spec");
            }
            let inner = FmtCase { hi: h, lo: 0, tr: itr, plus: iplus, prec: iprec, sink: SinkPlan::default(), io: None, flags: None };
            if !ok {
                rep.violations.push(viol("FMT_SPURIOUS_ERR", "a rendering made re-entrantly from inside the sink (into a String) returned Err"));
            } else {
                let mut v = Vec::new();
                check_content(&inner, &text, &mut v, &mut rep.probes);
                for mut x in v {
                    x.detail = format!("re-entrant rendering from inside the sink: {}", x.detail);
                    rep.violations.push(x);
                }
            }
            let nested = std::mem::take(&mut sink.reentered_nested);
            if !nested.is_empty() {
                rep.probes.hit("sink_reentrant_nested");
                if nested.len() >= 40 {
                    rep.probes.hit("sink_reentrant_depth_over_40");
                }
            }
            rep.steps += nested.len() as u64;
            let total = nested.len() + 1;
            for (i, (ok, text, lo)) in nested.into_iter().enumerate() {
                let inner = FmtCase { lo, ..inner.clone() };
                let live = total - i + 1; // renderings live when this one ran, the outer one included
                if !ok {
                    rep.violations.push(viol("FMT_SPURIOUS_ERR", format!("a re-entrant rendering into a String returned Err with {live} renderings live on the thread")));
                    break;
                }
                let mut v = Vec::new();
                check_content(&inner, &text, &mut v, &mut rep.probes);
                if let Some(mut x) = v.into_iter().next() {
                    x.detail = format!("re-entrant rendering with {live} renderings live on the thread: {}", x.detail);
                    rep.violations.push(x);
                    break;
                }
            }
        }
        match r {
            Err(msg) => rep.violations.push(viol("PANIC", format!("fmt panicked under sink fault: {msg}"))),
            Ok(res) => {
                let fired = sink.fired();
                rep.sig.byte(res.is_ok() as u8);
                rep.sig.byte(fired as u8);
                if !fired {
                    rep.probes.hit("sink_fault_planned_not_reached");
                    if res.is_err() {
                        rep.violations.push(viol("FMT_SPURIOUS_ERR", "fmt returned Err although no sink call failed"));
                    }
                    if sink.data != full {
                        rep.violations.push(viol("FMT_CONTENT", "same value rendered differently on a second call"));
                    }
                } else {
                    if res.is_ok() && sink.data != full {
                        rep.violations.push(viol(
                            "FMT_ACK_INCOMPLETE",
                            format!(
                                "fmt returned Ok but the sink holds {} of {} bytes ({:?})",
                                sink.data.len(),
                                full.len(),
                                clip(&sink.data)
                            ),
                        ));
                    }
                    if res.is_err() {
                        rep.probes.hit("fmt_error_propagated");
                    }
                }
                if !full.starts_with(sink.data.as_str()) {
                    rep.violations.push(viol(
                        "FMT_GARBAGE_PREFIX",
                        format!("sink holds {:?}, not a prefix of {:?}", clip(&sink.data), clip(&full)),
                    ));
                }
                if sink.writes_after_refusal > 0 {
                    rep.probes.hit("fmt_wrote_after_refusal");
                }
                rep.outcome = format!(
                    "{} fired={} accepted {}/{} bytes in {} calls",
                    if res.is_ok() { "Ok" } else { "Err" },
                    fired,
                    sink.data.len(),
                    full.len(),
                    sink.calls
                );
            }
        }
        // 3. recovery: faults off, same call must give the fault-free result
        match guarded(|| render_ideal(&x, c)) {
            Ok((Ok(()), again, _)) if again == full => rep.probes.hit("recovery_ok"),
            Ok(_) => rep.violations.push(viol("RECOVERY_FAILED", "fault-free rendering after a faulted one differs")),
            Err(msg) => rep.violations.push(viol("PANIC", format!("fmt panicked on recovery: {msg}"))),
        }
    } else {
        rep.outcome = format!("Ok {:?}", clip(&full));
    }
    rep.sig.u64(rep.violations.len() as u64);
    rep
}

/// Draw a formatting case for `val`. The value is rendered fault-free first
/// so that fault positions always land inside the operation.
pub fn generate(r: &mut Rng, hi: u64, lo: u64) -> FmtCase {
    let tr = *r.pick(&[Tr::Display, Tr::LowerExp, Tr::UpperExp]);
    let plus = r.bool();
    let prec = match r.below(20) {
        0..=7 => None,
        8..=15 => Some(r.range(0, 20) as usize),
        16..=18 => Some(r.range(21, 120) as usize),
        _ => {
            // log-uniform up to 1100
            let bits = r.range(7, 10);
            Some(((1u64 << bits) + r.below(1u64 << bits)).min(1100) as usize)
        }
    };
    // now and then a very large precision: fixed-size render buffers and precision clamps above the
    // usual range must not go unnoticed
    // (65 535 is avoided: `format!("{:.65535e}", 1.5f64)` panics inside std itself)
    let prec = if r.chance(1, 300) {
        Some(match r.below(3) {
            0 => *r.pick(&[3000usize, 10_000, 30_000]),
            1 => *r.pick(&[2047usize, 2048, 4095, 4096, 8191, 8192, 16_383, 16_384, 32_767, 32_768, 65_534, if tr == Tr::Display { 65_535 } else { 65_534 }]),
            _ => {
                let bits = r.range(11, 15);
                ((1u64 << bits) + r.below(1u64 << bits)).min(65_534) as usize
            }
        })
    } else {
        prec
    };
    // Bias towards the precision at which a word is an exact decimal tie (a
    // dyadic rational with f fractional bits ties at precision f - 1): that is
    // where a wrong rounding mode shows.
    let prec = match (frac_bits(hi), frac_bits(lo & !SIGN)) {
        (Some(f), _) if (1..=40).contains(&f) && r.chance(1, 6) => Some((f - 1) as usize),
        (_, Some(f)) if (1..=40).contains(&f) && r.chance(1, 8) => Some((f - 1) as usize),
        _ => prec,
    };
    let flags = if r.chance(1, 5) {
        let preset = r.usize_below(crate::fmtspecs::N_PRESETS);
        let width = match r.below(8) {
            0..=4 => *r.pick(&[0usize, 1, 8, 12, 24, 40, 80]),
            5 => *r.pick(&[63usize, 64, 65, 95, 96, 97, 127, 128, 129, 255, 256, 257, 1023, 1024, 4096, 65_535]),
            _ => {
                let bits = r.range(1, 15);
                ((1u64 << bits) + r.below(1u64 << bits)).min(65_535) as usize
            }
        };
        Some(FlagSpec { preset, width })
    } else {
        None
    };
    let plus = match flags {
        Some(fl) => crate::fmtspecs::PRESET_HAS_PLUS[fl.preset],
        None => plus,
    };
    let mut c = FmtCase { hi, lo, tr, plus, prec, sink: SinkPlan::default(), io: None, flags };
    if r.chance(35, 100) {
        return c; // fault-free configuration
    }
    if c.flags.is_none() && r.chance(1, 4) {
        // format into an io::Write with its own fault plan
        let x = raw_twofloat(hi, lo);
        let ideal = WriterPlan::default();
        let mut w = SimWriter::new(&ideal);
        let ncalls = match guarded(|| render_tf_io(&mut w, &x, tr, plus, prec)) {
            Ok(_) => w.calls.max(1),
            Err(_) => 1,
        };
        let mut plan = WriterPlan { sticky: r.bool(), ..Default::default() };
        if r.bool() {
            plan.max_chunk = Some(1 + r.usize_below(9));
        }
        if r.bool() {
            let n = 1 + r.small(3) as usize;
            for _ in 0..n {
                plan.interrupt_calls.push(r.usize_below(ncalls * 2));
            }
            plan.interrupt_calls.sort_unstable();
            plan.interrupt_calls.dedup();
        }
        // recount under the benign part of the plan so that the hard fault can land on any
        // call of the operation as it actually unfolds, and never on an interrupted call
        let ncalls = {
            let mut w = SimWriter::new(&plan);
            match guarded(|| render_tf_io(&mut w, &x, tr, plus, prec)) {
                Ok(_) => w.calls.max(1),
                Err(_) => ncalls,
            }
        };
        match r.below(3) {
            0 => plan.fail_at_call = Some(r.usize_below(ncalls)),
            1 => plan.zero_at_call = Some(r.usize_below(ncalls)),
            _ => {}
        }
        if !plan.is_faulty() {
            plan.fail_at_call = Some(r.usize_below(ncalls));
        }
        if let Some(k) = plan.fail_at_call.or(plan.zero_at_call) {
            plan.interrupt_calls.retain(|i| *i != k);
        }
        c.io = Some(plan);
        return c;
    }
    let x = raw_twofloat(hi, lo);
    let (nchunks, nbytes) = match guarded(|| render_ideal(&x, &c)) {
        Ok((_, text, n)) => (n.max(1), text.len().max(1)),
        Err(_) => (1, 1),
    };
    let sticky = r.bool();
    if r.chance(1, 10) {
        // a re-entrant sink, with or without a fault of its own
        c.sink.reentrant_hi = Some(crate::values::hex(if r.bool() { hi } else { 1.0f64.to_bits() }));
        if r.chance(1, 6) {
            c.sink.reentrant_depth = Some(*r.pick(&[2u32, 3, 4, 8, 16, 32, 41, 48, 64, 96, 128]));
        }
        if r.chance(1, 3) && c.prec.map_or(true, |p| p <= 64) {
            // the re-entrant renderings use the spec of the outer one instead of plain `{}`
            c.sink.reentrant_spec = Some((c.tr, c.plus, c.prec));
        }
        if r.bool() {
            return c;
        }
    }
    let reentrant = c.sink.reentrant_hi.clone();
    let depth = c.sink.reentrant_depth;
    let rspec = c.sink.reentrant_spec;
    match r.below(3) {
        0 => c.sink = SinkPlan { fail_at_chunk: Some(r.usize_below(nchunks)), capacity: None, sticky, reentrant_hi: reentrant.clone(), reentrant_depth: depth, reentrant_spec: rspec },
        1 => c.sink = SinkPlan { fail_at_chunk: None, capacity: Some(r.usize_below(nbytes)), sticky, reentrant_hi: reentrant.clone(), reentrant_depth: depth, reentrant_spec: rspec },
        _ => {
            c.sink = SinkPlan {
                fail_at_chunk: Some(r.usize_below(nchunks)),
                capacity: Some(r.usize_below(nbytes)),
                sticky,
                reentrant_hi: reentrant,
                reentrant_depth: depth,
                reentrant_spec: rspec,
            }
        }
    }
    c
}

/// Number of fractional binary digits of a finite normal f64 (None if it has
/// none, is not normal, or has more than 60).
fn frac_bits(bits: u64) -> Option<u32> {
    let x = f64::from_bits(bits);
    if !x.is_normal() {
        return None;
    }
    let e = (((bits >> 52) & 0x7ff) as i32) - 1023; // value = 1.m * 2^e
    let m = (bits & ((1u64 << 52) - 1)) | (1u64 << 52);
    let tz = m.trailing_zeros() as i32; // significant bits end at 2^(e - 52 + tz)
    let lowest = e - 52 + tz;
    if lowest < 0 && lowest >= -60 {
        Some((-lowest) as u32)
    } else {
        None
    }
}

/// Simpler variants of a case, for minimisation.
pub fn shrink(c: &FmtCase) -> Vec<FmtCase> {
    let mut out = Vec::new();
    let mut push = |f: &dyn Fn(&mut FmtCase)| {
        let mut d = c.clone();
        f(&mut d);
        if d != *c && ref_valid_bits(d.hi, d.lo) {
            out.push(d);
        }
    };
    // drop faults
    if c.io.is_some() {
        push(&|d| d.io = Some(WriterPlan::default()));
        push(&|d| {
            if let Some(p) = d.io.as_mut() {
                p.max_chunk = None
            }
        });
        push(&|d| {
            if let Some(p) = d.io.as_mut() {
                p.interrupt_calls.clear()
            }
        });
        push(&|d| {
            if let Some(p) = d.io.as_mut() {
                p.fail_at_call = p.fail_at_call.map(|k| k / 2)
            }
        });
        push(&|d| {
            if let Some(p) = d.io.as_mut() {
                p.zero_at_call = p.zero_at_call.map(|k| k / 2)
            }
        });
    }
    push(&|d| d.sink = SinkPlan::default());
    push(&|d| {
        d.sink.reentrant_hi = None;
        d.sink.reentrant_depth = None;
        d.sink.reentrant_spec = None
    });
    push(&|d| d.sink.reentrant_spec = None);
    push(&|d| d.sink.reentrant_spec = d.sink.reentrant_spec.map(|(t, _, _)| (t, false, None)));
    push(&|d| d.sink.reentrant_depth = None);
    for div in [2u32, 4] {
        push(&|d| d.sink.reentrant_depth = d.sink.reentrant_depth.map(|k| (k - k / div).max(1)));
    }
    push(&|d| d.sink.reentrant_depth = d.sink.reentrant_depth.map(|k| k.saturating_sub(1).max(1)));
    push(&|d| d.sink.capacity = None);
    push(&|d| d.sink.fail_at_chunk = None);
    if c.sink.is_faulty() {
        push(&|d| d.sink.sticky = true);
    }
    if let Some(k) = c.sink.fail_at_chunk {
        push(&|d| d.sink.fail_at_chunk = Some(0));
        push(&|d| d.sink.fail_at_chunk = Some(k / 2));
        push(&|d| d.sink.fail_at_chunk = Some(k.saturating_sub(1)));
    }
    if let Some(k) = c.sink.capacity {
        push(&|d| d.sink.capacity = Some(0));
        push(&|d| d.sink.capacity = Some(k / 2));
        push(&|d| d.sink.capacity = Some(k.saturating_sub(1)));
    }
    // simplify the spec
    push(&|d| d.flags = None);
    push(&|d| {
        if let Some(f) = d.flags.as_mut() {
            f.width = 0
        }
    });
    push(&|d| d.prec = None);
    if let Some(p) = c.prec {
        push(&|d| d.prec = Some(0));
        push(&|d| d.prec = Some(p / 2));
        push(&|d| d.prec = Some(p.saturating_sub(1)));
    }
    push(&|d| d.plus = false);
    push(&|d| d.tr = Tr::Display);
    // simplify the value
    for (hi, lo) in crate::values::shrink_words(c.hi, c.lo) {
        push(&|d| {
            d.hi = hi;
            d.lo = lo;
        });
    }
    out
}
