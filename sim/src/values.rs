//! Workload: valid (hi, lo) pairs built from raw bit patterns, admitted by the
//! reference predicate only (never by the code under test), plus values the
//! public API itself produces. See DESIGN.md §3.5 / §3.6.

use crate::prng::Rng;
use std::convert::TryFrom;
use twofloat::TwoFloat;

pub const SIGN: u64 = 1 << 63;
pub const EXP_MASK: u64 = 0x7ff << 52;
pub const MANT_MASK: u64 = (1 << 52) - 1;

/// Reference validity predicate: Definition 1.4 as the property set states
/// it. Hardware IEEE-754 round-to-nearest-even addition, numeric equality.
#[inline]
pub fn ref_valid(a: f64, b: f64) -> bool {
    a.is_finite() && b.is_finite() && std::hint::black_box(a) + std::hint::black_box(b) == a
}

#[inline]
pub fn ref_valid_bits(hi: u64, lo: u64) -> bool {
    ref_valid(f64::from_bits(hi), f64::from_bits(lo))
}

/// 2^k for k in [-1074, 1023], built from bits (no libm involved).
pub fn pow2(k: i32) -> f64 {
    assert!((-1074..=1023).contains(&k), "pow2 out of range: {k}");
    if k >= -1022 {
        f64::from_bits(((k + 1023) as u64) << 52)
    } else {
        f64::from_bits(1u64 << (k + 1074))
    }
}

/// Unbiased exponent of a normal f64 (caller guarantees normal).
pub fn exponent(x: f64) -> i32 {
    (((x.to_bits() & EXP_MASK) >> 52) as i32) - 1023
}

/// Half of the unit in the last place of a normal `hi`, if representable.
pub fn half_ulp(hi: f64) -> Option<f64> {
    if !hi.is_normal() {
        return None;
    }
    let k = exponent(hi) - 53;
    if k < -1074 {
        None
    } else {
        Some(pow2(k))
    }
}

pub fn next_up_bits(b: u64) -> u64 {
    // magnitude successor on the bit pattern (keeps sign); saturates into inf
    // patterns, which is fine: callers feed the result to the oracle.
    if b & !SIGN == 0 {
        (b & SIGN) | 1
    } else {
        b + 1
    }
}

pub fn next_down_bits(b: u64) -> u64 {
    if b & !SIGN == 0 {
        b
    } else {
        b - 1
    }
}

/// Host self-check: the reference predicate relies on the host `f64` add
/// being IEEE round-to-nearest-even. Returns an error text on failure.
pub fn host_selfcheck() -> Result<(), String> {
    let cases: &[(f64, f64, bool)] = &[
        (1.0, pow2(-53), true),                       // tie, even hi -> stays
        (1.0 + pow2(-52), pow2(-53), false),          // tie, odd hi -> moves
        (1.0, -pow2(-54), true),                      // power of two, quarter ulp below: tie to even
        (1.0, -pow2(-54) - pow2(-106), false),        // just past it
        (1.0, pow2(-53) + pow2(-105), false),
        (1.0, pow2(-53) - pow2(-106), true),
        (2.0, -pow2(-53), true),
        (3.0, pow2(-52), true),                        // 3 has odd last bit? 3 = 1.1b * 2^1, mantissa lsb 0 -> even
        (f64::MAX, pow2(969), true),
        (f64::MAX, pow2(970), false),                 // rounds to inf
        (0.0, 0.0, true),
        (0.0, -0.0, true),
        (-0.0, 0.0, true),
        (0.0, 5e-324, false),
        (f64::MIN_POSITIVE, 5e-324, false),
        (5e-324, 0.0, true),
        (f64::INFINITY, 0.0, false),
        (1.0, f64::NAN, false),
        (1.0, f64::INFINITY, false),
        (pow2(-1021), pow2(-1074), true),             // 2^-1021: ulp 2^-1073, half = 2^-1074, even
        (pow2(-1021) + pow2(-1073), pow2(-1074), false),
    ];
    for (a, b, want) in cases {
        if ref_valid(*a, *b) != *want {
            return Err(format!(
                "host f64 add is not IEEE RN-even: ref_valid({:e},{:e}) != {}",
                a, b, want
            ));
        }
    }
    // std float parsing / printing round trip (the reference for numerals)
    for bits in [
        0x3ff0_0000_0000_0001u64,
        0x0000_0000_0000_0001,
        0x7fef_ffff_ffff_ffff,
        0x3fd3_3333_3333_3333,
    ] {
        let x = f64::from_bits(bits);
        for s in [format!("{}", x), format!("{:e}", x), format!("{:E}", x)] {
            match s.parse::<f64>() {
                Ok(y) if y.to_bits() == bits => {}
                _ => return Err(format!("std f64 print/parse round trip failed for {bits:#x} via {s}")),
            }
        }
    }
    Ok(())
}

#[derive(Clone, Copy, Debug, PartialEq, Eq, PartialOrd, Ord)]
#[repr(u8)]
pub enum VClass {
    F64ExactPosZeroLo = 0,
    F64ExactNegZeroLo,
    ZeroHi,
    Generic,
    ExactTie,
    Pow2Quarter,
    TieNeighbour,
    SubnormalLo,
    MinSubnormalLo,
    TinyHi,
    SubnormalHi,
    Extremes,
    ApiChain,
    ShortRender,
}
pub const N_VCLASS: usize = 14;
pub const VCLASS_NAMES: [&str; N_VCLASS] = [
    "f64_exact_lo_pos_zero",
    "f64_exact_lo_neg_zero",
    "zero_hi",
    "generic",
    "exact_tie_even_hi",
    "pow2_hi_quarter_ulp_lo",
    "tie_neighbour",
    "subnormal_lo",
    "min_subnormal_lo",
    "tiny_normal_hi",
    "subnormal_hi",
    "extremes",
    "api_chain",
    "short_render",
];
const VCLASS_WEIGHTS: [u32; N_VCLASS] = [6, 6, 3, 24, 8, 6, 8, 6, 3, 3, 3, 4, 12, 8];

#[derive(Clone, Copy, Debug)]
pub struct Val {
    pub hi: u64,
    pub lo: u64,
    pub class: VClass,
}

#[derive(Default, Clone)]
pub struct GenStats {
    pub discards: u64,
    pub api_invalid: u64,
    pub api_nonfinite: u64,
    /// the crate's own maths API panicked while building a workload value
    /// (not C20's business: counted, the candidate is discarded)
    pub api_panicked: u64,
    pub api_first_panic: Option<String>,
}

fn rand_sign(r: &mut Rng) -> u64 {
    if r.bool() {
        SIGN
    } else {
        0
    }
}

fn rand_mantissa(r: &mut Rng) -> u64 {
    match r.below(8) {
        0 => 0,
        1 => MANT_MASK,
        2 => 1,
        3 => MANT_MASK - 1,
        4 => 1u64 << r.below(52),
        5 => r.next_u64() & MANT_MASK & !((1u64 << r.below(52)) - 1), // trailing zeros
        _ => r.next_u64() & MANT_MASK,
    }
}

fn rand_normal_exp(r: &mut Rng) -> u64 {
    // biased exponent 1..=2046, with mass near 1023, near both ends, and uniform
    match r.below(6) {
        0 => r.range(1, 60) as u64,
        1 => r.range(1986, 2046) as u64,
        2 | 3 => r.range(1023 - 70, 1023 + 70) as u64,
        _ => r.range(1, 2046) as u64,
    }
}

fn rand_normal_hi(r: &mut Rng) -> u64 {
    rand_sign(r) | (rand_normal_exp(r) << 52) | rand_mantissa(r)
}

/// A low word strictly inside the half-ulp of `hi` with a random gap.
fn lo_below_half_ulp(r: &mut Rng, hi: u64) -> u64 {
    let e_hi = ((hi & EXP_MASK) >> 52) as i64; // biased
    // the gap between the half-ulp of hi and lo: dense near 0, and uniform over everything the
    // exponent range allows (a low word may sit 2000 binades below the high word)
    let max_gap = (e_hi - 54 + 52).max(0); // down to the smallest subnormal
    let gap = match r.below(6) {
        0 => 0,
        1 => r.range(0, 3),
        2 => r.range(0, 60),
        3 => r.range(0, 600),
        _ => r.range(0, max_gap),
    };
    let e_lo = e_hi - 54 - gap; // biased exponent of lo: |lo| < 2^(E_hi-53)
    let sign = rand_sign(r);
    if e_lo >= 1 {
        sign | ((e_lo as u64) << 52) | rand_mantissa(r)
    } else {
        // subnormal lo: keep a mantissa of limited width
        let width = (52 + e_lo).clamp(0, 52); // number of available bits
        if width <= 0 {
            sign // zero
        } else {
            let m = r.next_u64() & ((1u64 << width) - 1);
            sign | m
        }
    }
}

fn gen_raw(r: &mut Rng, class: VClass, st: &mut GenStats) -> Option<(u64, u64)> {
    use VClass::*;
    Some(match class {
        F64ExactPosZeroLo => (rand_f64ish(r), 0),
        F64ExactNegZeroLo => (rand_f64ish(r), SIGN),
        ZeroHi => (rand_sign(r), rand_sign(r)),
        Generic => {
            let hi = rand_normal_hi(r);
            (hi, lo_below_half_ulp(r, hi))
        }
        ExactTie => {
            let hi = rand_normal_hi(r) & !1; // even mantissa
            let h = half_ulp(f64::from_bits(hi))?;
            (hi, h.to_bits() | rand_sign(r))
        }
        Pow2Quarter => {
            let hi = rand_sign(r) | (rand_normal_exp(r) << 52);
            let e = exponent(f64::from_bits(hi));
            if e - 54 < -1074 {
                return None;
            }
            // opposite sign, magnitude 2^(e-54) (tie towards the power of two), or its predecessor
            let q = pow2(e - 54).to_bits();
            let q = if r.chance(1, 3) { next_down_bits(q) } else { q };
            (hi, q | ((hi & SIGN) ^ SIGN))
        }
        TieNeighbour => {
            let hi = rand_normal_hi(r);
            let h = half_ulp(f64::from_bits(hi))?.to_bits();
            let cand = match r.below(4) {
                0 => next_down_bits(h),
                1 => h,
                2 => next_down_bits(next_down_bits(h)),
                _ => next_down_bits(h) & !((1u64 << r.below(40)) - 1),
            };
            (hi, cand | rand_sign(r))
        }
        SubnormalLo => {
            // hi small enough that a subnormal lo is within half an ulp
            let e = r.range(1, 52 + 53) as u64;
            let hi = rand_sign(r) | (e << 52) | rand_mantissa(r);
            let bits_avail = (e as i64 - 2).clamp(0, 52) as u64;
            let m = if bits_avail == 0 { 0 } else { r.next_u64() & ((1u64 << bits_avail) - 1) };
            let hi = if r.chance(1, 3) {
                // any larger hi also admits subnormal lo
                rand_sign(r) | (r.range(60, 2046) as u64) << 52 | rand_mantissa(r)
            } else {
                hi
            };
            (hi, rand_sign(r) | m.max(1))
        }
        MinSubnormalLo => {
            let hi = rand_sign(r) | ((r.range(3, 2046) as u64) << 52) | rand_mantissa(r);
            (hi, rand_sign(r) | 1)
        }
        TinyHi => {
            let hi = rand_sign(r) | ((r.range(1, 3) as u64) << 52) | rand_mantissa(r);
            let lo = match r.below(3) {
                0 => 0,
                1 => SIGN,
                _ => rand_sign(r) | 1,
            };
            (hi, lo)
        }
        SubnormalHi => {
            let m = match r.below(3) {
                0 => 1,
                1 => MANT_MASK,
                _ => (r.next_u64() & MANT_MASK).max(1),
            };
            (rand_sign(r) | m, rand_sign(r))
        }
        Extremes => match r.below(8) {
            0 => pair(TwoFloat::MAX),
            1 => pair(TwoFloat::MIN),
            2 => pair(TwoFloat::MIN_POSITIVE),
            3 => (f64::MAX.to_bits(), pow2(969).to_bits()),
            4 => (f64::MAX.to_bits(), pow2(969).to_bits() | SIGN),
            5 => (f64::MIN.to_bits(), next_down_bits(pow2(970).to_bits()) | SIGN),
            6 => (f64::MAX.to_bits() | rand_sign(r), next_down_bits(pow2(970).to_bits()) | rand_sign(r)),
            _ => (pow2(1023).to_bits() | rand_sign(r), pow2(969).to_bits() | rand_sign(r)),
        },
        ApiChain => return api_chain(r, st),
        ShortRender => {
            let x = match r.below(5) {
                0 => r.range(-1000, 1000) as f64,
                1 => r.range(-1000, 1000) as f64 / 10.0,
                2 => r.range(-100, 100) as f64 * pow2(-(r.range(0, 40) as i32)),
                3 => (r.range(1, 9) as f64) * 10f64.powi(r.range(-30, 30) as i32),
                _ => r.range(-9, 9) as f64 * pow2(r.range(-1000, 1000) as i32),
            };
            let hi = x.to_bits();
            let lo = if x.is_normal() {
                let e = exponent(x);
                let k = e - 53 - r.range(1, 30) as i32;
                if k >= -1074 {
                    (pow2(k) * r.range(1, 9) as f64).to_bits() | rand_sign(r)
                } else {
                    rand_sign(r)
                }
            } else {
                rand_sign(r)
            };
            (hi, lo)
        }
    })
}

fn rand_f64ish(r: &mut Rng) -> u64 {
    match r.below(6) {
        0 => (r.range(-100, 100) as f64).to_bits(),
        1 => rand_sign(r) | (r.next_u64() & MANT_MASK), // subnormal or zero
        _ => rand_normal_hi(r),
    }
}

fn pair(t: TwoFloat) -> (u64, u64) {
    (t.hi().to_bits(), t.lo().to_bits())
}

/// Values produced by the crate's own public API from short random
/// expression chains. Kept only when reference-valid.
fn api_chain(r: &mut Rng, st: &mut GenStats) -> Option<(u64, u64)> {
    // The PRNG is advanced inside the guarded region; a panic abandons the
    // rest of this candidate's draws, which is still a pure function of the seed.
    let mut trace = String::new();
    match crate::common::guarded(|| api_chain_inner(r, &mut trace)) {
        Ok(x) => {
            let (hi, lo) = pair(x);
            if !f64::from_bits(hi).is_finite() {
                st.api_nonfinite += 1;
                return None;
            }
            if !ref_valid_bits(hi, lo) {
                // An invalid finite result from the public API is C01's business, not
                // C20's: counted and discarded here.
                st.api_invalid += 1;
                return None;
            }
            Some((hi, lo))
        }
        Err(msg) => {
            st.api_panicked += 1;
            if st.api_first_panic.is_none() {
                st.api_first_panic = Some(format!("{msg}; chain: {trace}"));
            }
            None
        }
    }
}

fn api_chain_inner(r: &mut Rng, trace: &mut String) -> TwoFloat {
    use std::fmt::Write as _;
    fn leaf(r: &mut Rng) -> TwoFloat {
        match r.below(10) {
            0 => twofloat::consts::PI,
            1 => twofloat::consts::E,
            2 => twofloat::consts::LN_2,
            3 => twofloat::consts::SQRT_2,
            4 => TwoFloat::from(r.range(-1000, 1000) as f64),
            5 => TwoFloat::new_add(r.range(-1000, 1000) as f64, f64::from_bits(rand_normal_hi(r)) * 1e-300),
            6 => TwoFloat::new_mul(
                f64::from_bits((r.range(1023 - 30, 1023 + 30) as u64) << 52 | rand_mantissa(r)),
                f64::from_bits((r.range(1023 - 30, 1023 + 30) as u64) << 52 | rand_mantissa(r) | rand_sign(r)),
            ),
            7 => TwoFloat::new_div(r.range(1, 1000) as f64, r.range(1, 1000) as f64),
            8 => TwoFloat::from(r.range(-100000, 100000) as i64),
            _ => TwoFloat::new_sub(
                f64::from_bits((r.range(1023 - 40, 1023 + 40) as u64) << 52 | rand_mantissa(r)),
                f64::from_bits((r.range(1023 - 40, 1023 + 40) as u64) << 52 | rand_mantissa(r)),
            ),
        }
    }
    let mut x = leaf(r);
    let n = r.range(0, 6);
    for _ in 0..n {
        let op = r.below(16);
        let _ = write!(trace, "({:#x},{:#x}) op{} ", x.hi().to_bits(), x.lo().to_bits(), op);
        x = match op {
            0 => x + leaf(r),
            1 => x - leaf(r),
            2 => x * leaf(r),
            3 => x / leaf(r),
            9 => -x,
            10 => x.recip(),
            11 => x.fract(),
            12 => x.floor(),
            13 => x * pow2(r.range(-300, 300) as i32),
            14 => x.powi(r.range(-4, 4) as i32),
            other => math_op(x, other),
        };
    }
    x
}

/// The operations that need twofloat's `math_funcs` feature (absent in the no-math build configurations).
#[cfg(feature = "mathapi")]
fn math_op(x: TwoFloat, op: u64) -> TwoFloat {
    match op {
        4 => x.abs().sqrt(),
        5 => {
            if x.hi().abs() < 300.0 {
                x.exp()
            } else {
                x
            }
        }
        6 => x.abs().ln(),
        7 => x.sin(),
        8 => x.cos(),
        _ => x.cbrt(),
    }
}

#[cfg(not(feature = "mathapi"))]
fn math_op(x: TwoFloat, _op: u64) -> TwoFloat {
    x
}

/// Draw one reference-valid value.
pub fn gen_value(r: &mut Rng, st: &mut GenStats) -> Val {
    loop {
        let ci = r.weighted(&VCLASS_WEIGHTS);
        let class: VClass = class_from_index(ci);
        match gen_raw(r, class, st) {
            Some((hi, lo)) if ref_valid_bits(hi, lo) => return Val { hi, lo, class },
            _ => st.discards += 1,
        }
    }
}

pub fn class_from_index(i: usize) -> VClass {
    use VClass::*;
    [
        F64ExactPosZeroLo,
        F64ExactNegZeroLo,
        ZeroHi,
        Generic,
        ExactTie,
        Pow2Quarter,
        TieNeighbour,
        SubnormalLo,
        MinSubnormalLo,
        TinyHi,
        SubnormalHi,
        Extremes,
        ApiChain,
        ShortRender,
    ][i]
}

/// Construct the value under test through the crate's checked constructor.
pub fn make(hi: u64, lo: u64) -> Result<TwoFloat, ()> {
    TwoFloat::try_from((f64::from_bits(hi), f64::from_bits(lo))).map_err(|_| ())
}

pub fn hex(b: u64) -> String {
    format!("0x{:016x}", b)
}

pub fn parse_hex(s: &str) -> Result<u64, String> {
    let t = s.strip_prefix("0x").ok_or_else(|| format!("bad hex word {s}"))?;
    u64::from_str_radix(t, 16).map_err(|e| format!("bad hex word {s}: {e}"))
}

/// serde helper: u64 words as hex strings in replay files.
pub mod hexword {
    use serde::{Deserialize, Deserializer, Serializer};
    pub fn serialize<S: Serializer>(v: &u64, s: S) -> Result<S::Ok, S::Error> {
        s.serialize_str(&super::hex(*v))
    }
    pub fn deserialize<'de, D: Deserializer<'de>>(d: D) -> Result<u64, D::Error> {
        let s = String::deserialize(d)?;
        super::parse_hex(&s).map_err(serde::de::Error::custom)
    }
}

/// Simpler reference-valid values near `(hi, lo)`, for minimisation (callers
/// re-check validity).
pub fn shrink_words(hi: u64, lo: u64) -> Vec<(u64, u64)> {
    let mut v = Vec::new();
    let one = 1.0f64.to_bits();
    v.push((one, 0));
    v.push((hi, 0));
    v.push((hi, lo & SIGN));
    v.push((one | (hi & SIGN), lo));
    v.push((hi & !SIGN, lo));
    v.push((hi, lo & !SIGN));
    v.push((hi & !MANT_MASK, lo));
    v.push((hi, lo & !MANT_MASK));
    for k in [32u32, 16, 8, 4] {
        v.push((hi & !((1u64 << k) - 1), lo));
        v.push((hi, lo & !((1u64 << k) - 1)));
    }
    // move the exponent of hi towards 0 keeping the gap to lo
    let e_hi = ((hi & EXP_MASK) >> 52) as i64;
    let e_lo = ((lo & EXP_MASK) >> 52) as i64;
    if e_hi != 1023 && e_hi > 0 && e_lo > 0 {
        let d = 1023 - e_hi;
        let ne_lo = e_lo + d;
        if (1..=2046).contains(&ne_lo) {
            v.push(((hi & !EXP_MASK) | (1023u64 << 52), (lo & !EXP_MASK) | ((ne_lo as u64) << 52)));
        }
    }
    v.retain(|p| *p != (hi, lo));
    v
}
