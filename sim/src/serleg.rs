//! Leg B (serialize side) — twofloat's real `Serialize` impl writes into the
//! simulated serializer, whose calls can fail; then the record it actually
//! emitted is read back positionally and as a map in both key orders.

use crate::common::*;
use crate::deleg::{run_twofloat, DeOutcome, Delivery};
use crate::prng::Rng;
use crate::simformat::*;
use crate::values::{self, hexword, ref_valid_bits};
use serde::{Deserialize, Serialize};

#[derive(Clone, Debug, Serialize, Deserialize, PartialEq)]
pub struct SerCase {
    #[serde(with = "hexword")]
    pub hi: u64,
    #[serde(with = "hexword")]
    pub lo: u64,
    pub fault: Option<CallFault>,
    pub human_readable: bool,
}

pub fn run_serializer(c: &SerCase) -> Result<(Result<(), SimError>, SerRun), String> {
    let x = raw_twofloat(c.hi, c.lo);
    let mut run = SerRun::new(c.fault, c.human_readable);
    let r = guarded(|| x.serialize(&mut run))?;
    Ok((r, run))
}

fn expected_events(c: &SerCase) -> Vec<SerEvent> {
    vec![
        SerEvent::Struct { name: String::new(), len: 2 },
        SerEvent::Field("hi".into()),
        SerEvent::Prim(Slot::F64(c.hi)),
        SerEvent::Field("lo".into()),
        SerEvent::Prim(Slot::F64(c.lo)),
        SerEvent::End,
    ]
}

fn shape_matches(got: &[SerEvent], want: &[SerEvent]) -> bool {
    got.len() == want.len()
        && got.iter().zip(want).all(|(g, w)| match (g, w) {
            // the struct's name is not part of the property
            (SerEvent::Struct { len: a, .. }, SerEvent::Struct { len: b, .. }) => a == b,
            _ => g == w,
        })
}

/// Turn the emitted record into deliverable entries (only for complete,
/// struct-shaped output).
fn entries_of(events: &[SerEvent]) -> Option<Vec<Entry>> {
    let mut es = Vec::new();
    let mut it = events.iter();
    match it.next()? {
        SerEvent::Struct { .. } => {}
        _ => return None,
    }
    loop {
        match it.next()? {
            SerEvent::End => break,
            SerEvent::Field(k) => match it.next()? {
                SerEvent::Prim(s) => es.push(Entry { key: k.clone(), kind: KeyKind::Str, val: Some(s.clone()) }),
                _ => return None,
            },
            _ => return None,
        }
    }
    Some(es)
}

/// Struct names are a handful of distinct strings: intern them so that a `&'static str` can be
/// handed to the delivery (bounded leak).
fn leak_name(name: &str) -> &'static str {
    use std::sync::Mutex;
    static NAMES: Mutex<Vec<&'static str>> = Mutex::new(Vec::new());
    let mut g = NAMES.lock().unwrap_or_else(|e| e.into_inner());
    if let Some(n) = g.iter().find(|n| **n == name) {
        return n;
    }
    if g.len() > 64 {
        return "…";
    }
    let n: &'static str = Box::leak(name.to_string().into_boxed_str());
    g.push(n);
    n
}

pub fn execute(c: &SerCase) -> LegReport {
    let mut rep = LegReport::default();
    if !ref_valid_bits(c.hi, c.lo) {
        rep.violations.push(viol("HARNESS", "ser case with a value that is not reference-valid"));
        return rep;
    }
    // checked construction of a valid pair must succeed and keep the words
    // (deserialisation funnels through it)
    match guarded(|| values::make(c.hi, c.lo)) {
        Ok(Ok(t)) if t.hi().to_bits() == c.hi && t.lo().to_bits() == c.lo => rep.probes.hit("ctor_accepts_valid"),
        Ok(Ok(t)) => rep.violations.push(viol(
            "RT_MISMATCH",
            format!("try_from changed the words to ({}, {})", values::hex(t.hi().to_bits()), values::hex(t.lo().to_bits())),
        )),
        Ok(Err(())) => rep.violations.push(viol("RT_REJECTED_VALID", "try_from rejected a reference-valid pair")),
        Err(msg) => rep.violations.push(viol("PANIC", format!("try_from panicked: {msg}"))),
    }

    // fault-free serialisation: S-emit
    let clean = SerCase { fault: None, ..c.clone() };
    let (r0, run0) = match run_serializer(&clean) {
        Ok(x) => x,
        Err(msg) => {
            rep.violations.push(viol("PANIC", format!("serialize panicked: {msg}")));
            return rep;
        }
    };
    rep.steps += run0.calls as u64;
    rep.log.u64(run0.log.finish());
    if let Err(e) = &r0 {
        rep.violations.push(viol("SER_SPURIOUS_ERR", format!("serialize failed on a fault-free serializer: {}", e.msg)));
    }
    let want = expected_events(c);
    let shape_ok = shape_matches(&run0.events, &want);
    if !shape_ok {
        rep.violations.push(viol(
            "SER_SHAPE",
            format!("emitted {:?}, want a struct of len 2 with fields hi, lo carrying the exact f64 words", run0.events),
        ));
    } else {
        rep.probes.hit("ser_shape_ok");
    }

    // S-rt: what was actually emitted must read back bit-identically
    if r0.is_ok() {
        if let Some(es) = entries_of(&run0.events) {
            let mut rev = es.clone();
            rev.reverse();
            for (name, entries, mode) in [("seq", &es, Mode::Seq), ("map", &es, Mode::Map), ("map-reversed", &rev, Mode::Map)] {
                for kind in [KeyKind::Str, KeyKind::Borrowed, KeyKind::Owned] {
                    if mode == Mode::Seq && kind != KeyKind::Str {
                        continue;
                    }
                    let entries: Vec<Entry> = entries.iter().map(|e| Entry { kind, ..e.clone() }).collect();
                  for honour_fields in [false, true] {
                    if honour_fields && (mode != Mode::Map || kind != KeyKind::Str) {
                        continue;
                    }
                    let name = if honour_fields { "map presented by a format that honours the fields hint" } else { name };
                    // own output is read back through a typed format that also checks the struct name it
                    // was written under: Serialize and Deserialize must agree with each other
                    let written_name: Option<&'static str> = run0.events.iter().find_map(|e| match e {
                        SerEvent::Struct { name, .. } => Some(leak_name(name)),
                        _ => None,
                    });
                    match run_twofloat(
                        &entries,
                        &Delivery { honour_fields, human_readable: c.human_readable, typed_requests: true, expect_struct_name: written_name, ..Delivery::clean(mode) },
                    ) {
                        Err(msg) => rep.violations.push(viol("PANIC", format!("deserialize ({name}) panicked: {msg}"))),
                        Ok(DeOutcome { result: Ok((h, l)), .. }) => {
                            if h != c.hi || l != c.lo {
                                rep.violations.push(viol(
                                    "RT_MISMATCH",
                                    format!(
                                        "round trip via {name}: ({}, {}) came back as ({}, {})",
                                        values::hex(c.hi),
                                        values::hex(c.lo),
                                        values::hex(h),
                                        values::hex(l)
                                    ),
                                ));
                            } else {
                                rep.probes.hit(match name {
                                    "seq" => "rt_seq_ok",
                                    "map" => "rt_map_ok",
                                    "map-reversed" => "rt_map_reversed_ok",
                                    _ => "rt_map_fields_hint_ok",
                                });
                            }
                        }
                        Ok(DeOutcome { result: Err(e), .. }) => rep.violations.push(viol(
                            "RT_REJECTED_VALID",
                            format!("round trip via {name}: own output rejected: {}", e.msg),
                        )),
                    }
                  }
                }
            }
        }
    }

    // S-rt through serde's own value deserializers (further real implementations of the seam)
    if r0.is_ok() && shape_ok {
        use serde::de::value::{Error as VErr, MapDeserializer, SeqDeserializer};
        use serde::Deserialize;
        let (h, l) = (f64::from_bits(c.hi), f64::from_bits(c.lo));
        let same = |t: &twofloat::TwoFloat| t.hi().to_bits() == c.hi && t.lo().to_bits() == c.lo;
        let results: Vec<(&str, Result<Result<twofloat::TwoFloat, VErr>, String>)> = vec![
            ("MapDeserializer(&str keys)", guarded(|| twofloat::TwoFloat::deserialize(MapDeserializer::<_, VErr>::new(vec![("hi", h), ("lo", l)].into_iter())))),
            ("MapDeserializer(&str keys, lo first)", guarded(|| twofloat::TwoFloat::deserialize(MapDeserializer::<_, VErr>::new(vec![("lo", l), ("hi", h)].into_iter())))),
            (
                "MapDeserializer(String keys)",
                guarded(|| twofloat::TwoFloat::deserialize(MapDeserializer::<_, VErr>::new(vec![("lo".to_string(), l), ("hi".to_string(), h)].into_iter()))),
            ),
            ("SeqDeserializer", guarded(|| twofloat::TwoFloat::deserialize(SeqDeserializer::<_, VErr>::new(vec![h, l].into_iter())))),
        ];
        for (name, r) in results {
            match r {
                Err(msg) => rep.violations.push(viol("PANIC", format!("deserialize from serde::de::value::{name} panicked: {msg}"))),
                Ok(Ok(t)) if same(&t) => rep.probes.hit("rt_serde_value_deserializers_ok"),
                Ok(Ok(t)) => rep.violations.push(viol(
                    "RT_MISMATCH",
                    format!("round trip via serde::de::value::{name} gave ({}, {})", values::hex(t.hi().to_bits()), values::hex(t.lo().to_bits())),
                )),
                Ok(Err(e)) => rep.violations.push(viol("RT_REJECTED_VALID", format!("round trip via serde::de::value::{name} rejected: {e}"))),
            }
        }
    }

    // the same call against a failing serializer: S-ack
    if c.fault.is_some() {
        rep.faulted = true;
        match run_serializer(c) {
            Err(msg) => rep.violations.push(viol("PANIC", format!("serialize panicked under serializer fault: {msg}"))),
            Ok((r, run)) => {
                rep.steps += run.calls as u64;
                rep.log.u64(run.log.finish());
                rep.sig.u64(run.sig.finish());
                rep.sig.byte(r.is_ok() as u8);
                if run.fired {
                    let site = c.fault.map(|f| f.at).unwrap_or(0);
                    rep.faults_fired.hit(match site {
                        0 => "ser_fault_at_serialize_struct",
                        1 => "ser_fault_at_first_field",
                        2 => "ser_fault_at_second_field",
                        3 => "ser_fault_at_end",
                        _ => "ser_fault_at_later_call",
                    });
                    if r.is_ok() {
                        rep.violations.push(viol(
                            "SER_ACK_INCOMPLETE",
                            format!("a serializer call failed but serialize returned Ok; record received: {:?}", run.events),
                        ));
                    } else {
                        rep.probes.hit("ser_error_propagated");
                    }
                    if run.calls_after_refusal > 0 {
                        rep.probes.hit("ser_called_after_refusal");
                    }
                } else {
                    rep.probes.hit("ser_fault_planned_not_reached");
                    if r.is_err() {
                        rep.violations.push(viol("SER_SPURIOUS_ERR", "serialize failed although no serializer call failed"));
                    }
                    if r.is_ok() && shape_ok && !shape_matches(&run.events, &want) {
                        rep.violations.push(viol("SER_SHAPE", "second serialisation of the same value differs"));
                    }
                }
                rep.outcome = format!("{} fired={} events={}", if r.is_ok() { "Ok" } else { "Err" }, run.fired, run.events.len());
            }
        }
        // recovery
        match run_serializer(&clean) {
            Ok((Ok(()), run)) if run.events == run0.events => rep.probes.hit("recovery_ok"),
            Ok(_) => rep.violations.push(viol("RECOVERY_FAILED", "fault-free serialisation after a faulted one differs")),
            Err(msg) => rep.violations.push(viol("PANIC", format!("serialize panicked on recovery: {msg}"))),
        }
    } else {
        rep.outcome = format!("Ok events={}", run0.events.len());
    }
    rep.sig.u64(rep.violations.len() as u64);
    rep
}

pub fn generate(r: &mut Rng, hi: u64, lo: u64) -> SerCase {
    let human_readable = r.bool();
    let fault = if r.chance(35, 100) {
        None
    } else {
        // four call sites in a fault-free run: struct, field, field, end
        Some(CallFault { at: r.usize_below(4), sticky: r.bool() })
    };
    SerCase { hi, lo, fault, human_readable }
}

pub fn shrink(c: &SerCase) -> Vec<SerCase> {
    let mut out = Vec::new();
    let mut push = |d: SerCase| {
        if d != *c {
            out.push(d);
        }
    };
    push(SerCase { fault: None, ..c.clone() });
    if let Some(f) = c.fault {
        push(SerCase { fault: Some(CallFault { at: f.at, sticky: true }), ..c.clone() });
        if f.at > 0 {
            push(SerCase { fault: Some(CallFault { at: f.at - 1, sticky: f.sticky }), ..c.clone() });
        }
    }
    push(SerCase { human_readable: true, ..c.clone() });
    for (hi, lo) in values::shrink_words(c.hi, c.lo) {
        if ref_valid_bits(hi, lo) {
            push(SerCase { hi, lo, ..c.clone() });
        }
    }
    out
}
