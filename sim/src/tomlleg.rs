//! Leg D — a second real data format: TOML (the `toml` crate). Unlike JSON it
//! can carry `inf`, `nan` and `-0.0`, so the non-finite rejection clause is
//! reached through a real parser. `toml` has no reader/writer seam (it works
//! on whole strings), so the environment here is the stored text and its
//! media-style corruption. Oracle: serde derive on `Ref` from the identical
//! text, then the reference predicate.

use crate::common::*;
use crate::deleg::{family_verdict, FamilyVerdict, Ref, RefLenient, RefNoHint, RefStrict, Words};
use crate::jsonleg::{apply_byte_faults, ByteFault};
use crate::prng::Rng;
use crate::values::{self, half_ulp, next_up_bits, ref_valid_bits, SIGN};
use serde::{Deserialize, Serialize};
use twofloat::TwoFloat;

#[derive(Clone, Copy, Debug, Serialize, Deserialize, PartialEq, Eq, Default)]
pub enum TomlHost {
    #[default]
    Bare,
    /// `struct { id: u32, #[serde(flatten)] v: T }`
    Flatten,
    /// `struct { v: T }` (sub-table or inline table)
    Nested,
    /// `struct { v: Vec<T> }` (array of tables / array of inline tables)
    Array,
}

#[derive(Serialize, Deserialize)]
struct Flat<T> {
    id: u32,
    #[serde(flatten)]
    v: T,
}
#[derive(Serialize, Deserialize)]
struct Nested<T> {
    v: T,
}
#[derive(Serialize, Deserialize)]
struct Array<T> {
    v: Vec<T>,
}

#[derive(Serialize, Clone, Copy)]
struct RefSer {
    hi: f64,
    lo: f64,
}

#[derive(Clone, Debug, Serialize, Deserialize, PartialEq)]
pub struct TomlCase {
    pub base: String,
    pub base_kind: String,
    #[serde(default)]
    pub host: TomlHost,
    pub faults: Vec<ByteFault>,
}

fn parse<T: for<'de> Deserialize<'de>>(host: TomlHost, text: &str) -> Result<Vec<T>, String> {
    Ok(match host {
        TomlHost::Bare => vec![toml::from_str::<T>(text).map_err(|e| e.message().to_string())?],
        TomlHost::Flatten => vec![toml::from_str::<Flat<T>>(text).map_err(|e| e.message().to_string())?.v],
        TomlHost::Nested => vec![toml::from_str::<Nested<T>>(text).map_err(|e| e.message().to_string())?.v],
        TomlHost::Array => toml::from_str::<Array<T>>(text).map_err(|e| e.message().to_string())?.v,
    })
}

fn words_list(ws: &[(u64, u64)]) -> String {
    let v: Vec<String> = ws.iter().map(|(h, l)| format!("({}, {})", values::hex(*h), values::hex(*l))).collect();
    format!("[{}]", v.join(", "))
}

pub fn execute(c: &TomlCase) -> LegReport {
    let mut rep = LegReport::default();
    let bytes = apply_byte_faults(c.base.as_bytes(), &c.faults);
    for (f, eff) in c.faults.iter().zip(crate::jsonleg::byte_faults_effective(c.base.as_bytes(), &c.faults)) {
        if !eff {
            rep.probes.hit("byte_fault_planned_without_effect");
            continue;
        }
        rep.faults_fired.hit(match f {
            ByteFault::Truncate { .. } => "toml_bytes_truncate",
            ByteFault::BitFlip { .. } => "toml_bytes_bit_flip",
            ByteFault::DupSpan { .. } => "toml_bytes_dup_span",
            ByteFault::ZeroSpan { .. } => "toml_bytes_zero_span",
            ByteFault::SwapSpans { .. } => "toml_bytes_swap_spans",
            ByteFault::Overwrite { .. } => "toml_bytes_overwrite",
        });
    }
    rep.faulted = !c.faults.is_empty();
    rep.probes.hit(match c.host {
        TomlHost::Bare => "toml_host_bare",
        TomlHost::Flatten => "toml_host_flatten",
        TomlHost::Nested => "toml_host_nested",
        TomlHost::Array => "toml_host_array",
    });
    rep.steps = 1; // one parser call: the toml crate has no reader seam whose events could be counted
    rep.log.bytes(&bytes);
    let text = match std::str::from_utf8(&bytes) {
        Ok(t) => t.to_string(),
        Err(_) => {
            // the toml crate only accepts &str: a real reader would fail UTF-8 validation first
            rep.probes.hit("toml_text_not_utf8_skipped");
            rep.outcome = "skipped: damaged text is not UTF-8".into();
            return rep;
        }
    };
    fn oracle<T: Words + for<'de> Deserialize<'de>>(host: TomlHost, text: &str) -> Result<Result<Vec<(u64, u64)>, String>, String> {
        guarded(|| parse::<T>(host, text)).map(|r| r.map(|rs| rs.iter().map(|x| x.words()).collect()))
    }
    let (std_res, strict, lenient, nohint) =
        match (oracle::<Ref>(c.host, &text), oracle::<RefStrict>(c.host, &text), oracle::<RefLenient>(c.host, &text), oracle::<RefNoHint>(c.host, &text)) {
            (Ok(a), Ok(b), Ok(c2), Ok(d)) => (a, b, c2, d),
            _ => {
                // a panic inside the toml crate on damaged input is the trusted base failing, not twofloat
                rep.probes.hit("toml_oracle_panicked_skipped");
                rep.outcome = "skipped: toml crate panicked on an oracle run".into();
                return rep;
            }
        };
    let verdict = family_verdict(&std_res, &[("f64-only", strict), ("lenient", lenient), ("hint-free", nohint)]);
    let unspecified = matches!(verdict, FamilyVerdict::Unspecified(_));
    if unspecified {
        rep.probes.hit("toml_conforming_readers_disagree_unspecified");
    }
    let expect: Result<Vec<(u64, u64)>, String> = match &verdict {
        FamilyVerdict::Accept(ws) => Ok(ws.clone()),
        FamilyVerdict::Reject(e) => Err(e.clone()),
        FamilyVerdict::Unspecified(e) => Err(format!("unspecified: {e}")),
    };
    let got = match guarded(|| parse::<TwoFloat>(c.host, &text)) {
        Ok(g) => g,
        Err(msg) => {
            rep.violations.push(viol("PANIC", format!("TwoFloat TOML deserialize panicked on {text:?}: {msg}")));
            rep.outcome = "panic".into();
            return rep;
        }
    };
    let got_words: Result<Vec<(u64, u64)>, String> = got.as_ref().map(|ts| ts.iter().map(|t| (t.hi().to_bits(), t.lo().to_bits())).collect()).map_err(|e| e.clone());
    if let Ok(ws) = &got_words {
        if let Some((h, l)) = ws.iter().find(|(h, l)| !ref_valid_bits(*h, *l)) {
            rep.violations.push(viol("DE_ACCEPTED_INVALID", format!("TOML {text:?} decoded to invalid words ({}, {})", values::hex(*h), values::hex(*l))));
        }
    }
    match (&expect, &got_words) {
        _ if unspecified => {}
        (Ok(want), Ok(have)) => {
            if want != have {
                rep.violations.push(viol("DE_UNFAITHFUL", format!("TOML {text:?}: delivered {} decoded as {}", words_list(want), words_list(have))));
            } else {
                rep.probes.hit("toml_accept_valid");
            }
        }
        (Ok(want), Err(e)) => rep.violations.push(viol("RT_REJECTED_VALID", format!("TOML {text:?} holds valid words {} but was rejected: {e}", words_list(want)))),
        (Err(why), Ok(have)) => {
            let class = if why == "overlap" || why == "non-finite" {
                "DE_ACCEPTED_INVALID"
            } else if why.contains("duplicate") {
                "DE_ACCEPTED_DUPLICATE"
            } else if why.contains("missing field") {
                "DE_ACCEPTED_MISSING"
            } else if why.contains("unknown field") {
                "DE_ACCEPTED_UNKNOWN"
            } else {
                "DE_ACCEPTED_MALFORMED"
            };
            if !rep.violations.iter().any(|v| v.class == class) {
                rep.violations.push(viol(class, format!("TOML {text:?} must be rejected ({why}) but decoded as {}", words_list(have))));
            }
        }
        (Err(why), Err(_)) => rep.probes.hit(if why == "overlap" {
            "toml_reject_overlap"
        } else if why == "non-finite" {
            "toml_reject_nonfinite"
        } else if why.contains("duplicate") {
            "toml_reject_duplicate"
        } else if why.contains("missing field") {
            "toml_reject_missing"
        } else if why.contains("unknown field") {
            "toml_reject_unknown"
        } else {
            "toml_reject_syntax_or_other"
        }),
    }
    rep.sig.str(&c.base_kind);
    rep.sig.byte(got_words.is_ok() as u8);
    if let Err(w) = &expect {
        rep.sig.str(w.split(|ch: char| ch.is_ascii_digit() || ch == '`' || ch == '"').next().unwrap_or(""));
    }
    rep.outcome = format!(
        "{} expect {}",
        match &got_words {
            Ok(ws) => format!("Ok({})", words_list(ws)),
            Err(e) => format!("Err({e})"),
        },
        match &expect {
            Ok(_) => "Ok".to_string(),
            Err(e) => format!("Err({e})"),
        }
    );
    rep
}

/// S-emit / S-rt through TOML for a valid value (called from the JSON write leg's fault-free part).
pub fn roundtrip(hi: u64, lo: u64, rep: &mut LegReport) {
    let x = raw_twofloat(hi, lo);
    let refv = RefSer { hi: f64::from_bits(hi), lo: f64::from_bits(lo) };
    let same = |t: &TwoFloat| t.hi().to_bits() == hi && t.lo().to_bits() == lo;
    // bare
    // trusted-base self-check (a panic or inexactness inside the toml crate is not twofloat's)
    let want = match guarded(|| {
        let want = toml::to_string(&refv).unwrap_or_default();
        match toml::from_str::<Ref>(&want) {
            Ok(r) if r.hi.to_bits() == hi && r.lo.to_bits() == lo => Some(want),
            _ => None,
        }
    }) {
        Ok(Some(w)) => w,
        _ => {
            rep.probes.hit("toml_trusted_base_not_exact_skipped");
            return;
        }
    };
    let want_of = |f: &dyn Fn() -> Result<String, toml::ser::Error>| guarded(|| f().unwrap_or_default()).unwrap_or_default();
    let checks: Vec<(&str, Result<Result<String, toml::ser::Error>, String>, String, TomlHost)> = vec![
        ("bare", guarded(|| toml::to_string(&x)), want.clone(), TomlHost::Bare),
        ("flatten", guarded(|| toml::to_string(&Flat { id: 7, v: x })), want_of(&|| toml::to_string(&Flat { id: 7, v: refv })), TomlHost::Flatten),
        ("nested", guarded(|| toml::to_string(&Nested { v: x })), want_of(&|| toml::to_string(&Nested { v: refv })), TomlHost::Nested),
        ("array", guarded(|| toml::to_string(&Array { v: vec![x, x] })), want_of(&|| toml::to_string(&Array { v: vec![refv, refv] })), TomlHost::Array),
    ];
    for (name, got, want, host) in checks {
        match got {
            Err(msg) => rep.violations.push(viol("PANIC", format!("serialize to TOML ({name}) panicked: {msg}"))),
            Ok(Err(e)) => rep.violations.push(viol("SER_SPURIOUS_ERR", format!("serialize to TOML ({name}) failed: {e}"))),
            Ok(Ok(text)) => {
                if text != want {
                    rep.violations.push(viol("SER_SHAPE", format!("TOML ({name}) output {text:?} differs from that of a two-field struct: {want:?}")));
                }
                match guarded(|| parse::<TwoFloat>(host, &text)) {
                    Err(msg) => rep.violations.push(viol("PANIC", format!("deserialize from TOML ({name}) panicked: {msg}"))),
                    Ok(Ok(ts)) if !ts.is_empty() && ts.iter().all(same) => rep.probes.hit("toml_rt_ok"),
                    Ok(Ok(ts)) => rep.violations.push(viol("RT_MISMATCH", format!("TOML ({name}) round trip of {text:?} gave {ts:?}"))),
                    Ok(Err(e)) => rep.violations.push(viol("RT_REJECTED_VALID", format!("TOML ({name}) round trip: own output {text:?} rejected: {e}"))),
                }
            }
        }
    }
}

fn num_text(r: &mut Rng, bits: u64) -> String {
    let x = f64::from_bits(bits);
    if x.is_nan() {
        return (*r.pick(&["nan", "+nan", "-nan"])).to_string();
    }
    if x.is_infinite() {
        return if x > 0.0 { (*r.pick(&["inf", "+inf"])).to_string() } else { "-inf".to_string() };
    }
    match r.below(6) {
        0 => format!("{:e}", x),
        1 => format!("{:E}", x),
        2 => {
            let mut s = format!("{}", x);
            if s.len() >= 400 {
                s = format!("{:e}", x);
            } else if !s.contains('.') && r.chance(2, 3) {
                s.push_str(".0"); // keep it float-typed (a bare integer literal is a different TOML type)
            }
            s
        }
        _ => {
            // what the toml crate itself writes
            let s = toml::to_string(&RefSer { hi: x, lo: 0.0 }).unwrap_or_default();
            s.lines().next().and_then(|l| l.strip_prefix("hi = ")).map(|t| t.to_string()).unwrap_or_else(|| format!("{:e}", x))
        }
    }
}

fn record_words(r: &mut Rng, hi: u64, lo: u64, other: (u64, u64)) -> (u64, u64, &'static str) {
    if r.chance(2, 5) {
        return (hi, lo, "valid");
    }
    let hf = f64::from_bits(hi);
    let sgn = if r.bool() { SIGN } else { 0 };
    let h = half_ulp(hf).map(|x| x.to_bits());
    let inf = f64::INFINITY.to_bits();
    let nan = f64::NAN.to_bits();
    match r.below(14) {
        0 => (lo, hi, "swapped"),
        1 => (hi, hi, "lo_is_hi"),
        2 => (hi, other.0, "stale_lo"),
        3 => match h {
            Some(h) => (hi, h | sgn, "half_ulp"),
            None => (hi, 1, "min_subnormal_lo"),
        },
        4 => match h {
            Some(h) => (hi, next_up_bits(h) | sgn, "half_ulp_up"),
            None => (hi, 1, "min_subnormal_lo"),
        },
        5 => (hi, lo ^ (1u64 << r.below(64)), "lo_bit_flip"),
        6 => (hi ^ (1u64 << r.below(64)), lo, "hi_bit_flip"),
        7 => (inf | sgn, 0 | (if r.bool() { SIGN } else { 0 }), "inf_hi_zero_lo"),
        8 => (nan, 0, "nan_hi_zero_lo"),
        9 => (hi, nan, "nan_lo"),
        10 => (hi, inf | sgn, "inf_lo"),
        11 => (inf | sgn, inf | sgn, "inf_both"),
        12 => (nan, nan, "nan_both"),
        _ => (inf | sgn, lo, "inf_hi"),
    }
}

pub fn generate(r: &mut Rng, hi: u64, lo: u64, other: (u64, u64)) -> TomlCase {
    let (wh, wl, wkind) = record_words(r, hi, lo, other);
    let nh = num_text(r, wh);
    let nl = num_text(r, wl);
    let oh = num_text(r, other.0);
    let ol = num_text(r, other.1);
    let sp = |r: &mut Rng| -> &'static str { *r.pick(&[" = ", "=", " =  ", "= "]) };
    // a quoted key takes any name (JSON string escaping is valid TOML basic-string escaping here)
    let unknown = serde_json::to_string(&crate::vocab::unknown_name(r)).unwrap_or_else(|_| "\"x\"".into());
    let (fields, shape): (String, &'static str) = match r.below(16) {
        0..=6 => (format!("hi{}{nh}\nlo{}{nl}\n", sp(r), sp(r)), "hi_lo"),
        7..=9 => (format!("lo{}{nl}\nhi{}{nh}\n", sp(r), sp(r)), "lo_hi"),
        10 => (format!("hi = {nh}\n"), "missing_lo"),
        11 => (format!("lo = {nl}\n"), "missing_hi"),
        12 => (format!("hi = {nh}\nlo = {nl}\nhi = {nh}\n"), "duplicate"),
        13 => (format!("hi = {nh}\n{unknown} = 1\nlo = {nl}\n"), "unknown_field"),
        14 => {
            if r.bool() {
                (format!("\"hi\" = {nh}\n'lo' = {nl}\n"), "quoted_keys")
            } else {
                let which = if r.bool() { "hi" } else { "lo" };
                let deco = serde_json::to_string(&crate::vocab::decorated(r, which)).unwrap_or_else(|_| "\"x\"".into());
                if which == "hi" { (format!("{deco} = {nh}\nlo = {nl}\n"), "key_near_miss") } else { (format!("hi = {nh}\n{deco} = {nl}\n"), "key_near_miss") }
            }
        }
        _ => (format!("hi = \"{nh}\"\nlo = {nl}\n"), "string_value"),
    };
    let host = match r.below(8) {
        0 => TomlHost::Flatten,
        1 | 2 => TomlHost::Nested,
        3 => TomlHost::Array,
        _ => TomlHost::Bare,
    };
    let inline = |f: &str| -> String {
        let items: Vec<&str> = f.lines().filter(|l| !l.is_empty()).collect();
        format!("{{ {} }}", items.join(", "))
    };
    let base = match host {
        TomlHost::Bare => fields.clone(),
        TomlHost::Flatten => {
            if r.bool() {
                format!("id = 7\n{fields}")
            } else {
                format!("{fields}id = 7\n")
            }
        }
        TomlHost::Nested => {
            if r.bool() {
                format!("[v]\n{fields}")
            } else {
                format!("v = {}\n", inline(&fields))
            }
        }
        TomlHost::Array => {
            let other_fields = format!("hi = {oh}\nlo = {ol}\n");
            if r.bool() {
                format!("[[v]]\n{other_fields}\n[[v]]\n{fields}")
            } else {
                format!("v = [{}, {}]\n", inline(&fields), inline(&other_fields))
            }
        }
    };
    let base_kind = format!("{shape}/{wkind}/{:?}", host);
    let mut c = TomlCase { base, base_kind, host, faults: vec![] };
    if r.chance(1, 2) {
        return c;
    }
    let n = c.base.len().max(1);
    let k = 1 + r.small(2) as usize;
    for _ in 0..k {
        let f = match r.below(8) {
            0 | 1 => ByteFault::Truncate { len: r.usize_below(n) },
            2 | 3 => ByteFault::BitFlip { offset: r.usize_below(n), bit: r.below(7) as u8 },
            4 => ByteFault::DupSpan { start: r.usize_below(n), len: 1 + r.usize_below(12), at: r.usize_below(n + 1) },
            5 => {
                let len = 1 + r.usize_below(6);
                ByteFault::SwapSpans { a: r.usize_below(n), b: r.usize_below(n), len }
            }
            _ => {
                let digits: Vec<usize> = c.base.bytes().enumerate().filter(|(_, b)| b.is_ascii_digit()).map(|(i, _)| i).collect();
                if digits.is_empty() {
                    ByteFault::BitFlip { offset: r.usize_below(n), bit: 0 }
                } else {
                    ByteFault::Overwrite { at: *r.pick(&digits), bytes: vec![b'0' + r.below(10) as u8] }
                }
            }
        };
        c.faults.push(f);
    }
    c
}

pub fn shrink(c: &TomlCase) -> Vec<TomlCase> {
    let mut out = Vec::new();
    for i in 0..c.faults.len() {
        let mut d = c.clone();
        d.faults.remove(i);
        out.push(d);
    }
    if !c.faults.is_empty() {
        if let Ok(s) = String::from_utf8(apply_byte_faults(c.base.as_bytes(), &c.faults)) {
            out.push(TomlCase { base: s, faults: vec![], ..c.clone() });
        }
    }
    // drop lines one at a time
    let lines: Vec<&str> = c.base.lines().collect();
    if lines.len() > 1 {
        for i in 0..lines.len() {
            let mut l = lines.clone();
            l.remove(i);
            out.push(TomlCase { base: l.join("\n") + "\n", ..c.clone() });
        }
    }
    out.retain(|d| d != c);
    out
}
