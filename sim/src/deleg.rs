//! Leg B (deserialize side) — a stored record, damaged by storage faults, is
//! delivered to twofloat's real `Deserialize` impl through the simulated
//! format; the outcome is compared with an executable reference model and
//! with serde's own derive on an equivalent struct. DESIGN.md §3.4 / §3.6.

use crate::common::*;
use crate::prng::Rng;
use crate::simformat::*;
use crate::values::{self, half_ulp, hexword, next_down_bits, next_up_bits, ref_valid_bits, EXP_MASK, SIGN};
use serde::{Deserialize, Serialize};
use twofloat::TwoFloat;

/// One storage fault on the clean record `[hi: F64, lo: F64]`. All
/// parameters are concrete, so the damaged record is a pure function of the
/// case file.
#[derive(Clone, Debug, Serialize, Deserialize, PartialEq)]
pub enum StorageFault {
    /// keep only the first `tokens` tokens (an entry is key + value)
    Truncate { tokens: usize },
    DuplicateEntry { from: usize, to: usize },
    SwapEntries { i: usize, j: usize },
    DropEntry { entry: usize },
    InsertUnknown { at: usize, name: String, slot: Slot },
    RenameKey { entry: usize, name: String },
    BitFlip { entry: usize, bit: u8 },
    /// overwrite the word of an entry; `label` names the fault kind
    /// (exponent_stuck_high, zero_fill, stale_word, half_ulp, ...)
    SetWord {
        entry: usize,
        #[serde(with = "hexword")]
        bits: u64,
        label: String,
    },
    /// the two words change places (keys stay)
    WordSwap,
    /// lo := hi
    WordDup,
    TypeConfuse { entry: usize, slot: Slot },
}

impl StorageFault {
    pub fn label(&self) -> &'static str {
        match self {
            StorageFault::Truncate { .. } => "storage_truncate",
            StorageFault::DuplicateEntry { .. } => "storage_duplicate_entry",
            StorageFault::SwapEntries { .. } => "storage_reorder",
            StorageFault::DropEntry { .. } => "storage_drop_entry",
            StorageFault::InsertUnknown { .. } => "storage_insert_unknown",
            StorageFault::RenameKey { .. } => "storage_rename_key",
            StorageFault::BitFlip { .. } => "storage_bit_flip",
            StorageFault::SetWord { label, .. } => match label.as_str() {
                "exponent_stuck_high" => "storage_exponent_stuck_high",
                "zero_fill" => "storage_zero_fill",
                "stale_word" => "storage_stale_word",
                "half_ulp" => "storage_lo_half_ulp",
                "half_ulp_up" => "storage_lo_half_ulp_next_up",
                "half_ulp_down" => "storage_lo_half_ulp_next_down",
                "quarter_ulp" => "storage_lo_quarter_ulp",
                "quarter_ulp_up" => "storage_lo_quarter_ulp_next_up",
                "quarter_ulp_down" => "storage_lo_quarter_ulp_next_down",
                "hi_next_up" => "storage_hi_next_up",
                "hi_next_down" => "storage_hi_next_down",
                "random_word" => "storage_random_word",
                "lattice_hi" => "storage_lattice_hi",
                "lattice_lo" => "storage_lattice_lo",
                "duplicate_with_other_word" => "storage_duplicate_with_other_word",
                _ => "storage_set_word_other",
            },
            StorageFault::WordSwap => "storage_word_swap",
            StorageFault::WordDup => "storage_word_dup",
            StorageFault::TypeConfuse { .. } => "storage_type_confuse",
        }
    }
}

#[derive(Clone, Debug, Serialize, Deserialize, PartialEq)]
pub struct DeCase {
    #[serde(with = "hexword")]
    pub hi: u64,
    #[serde(with = "hexword")]
    pub lo: u64,
    pub mode: Mode,
    /// map mode: the clean record is written lo first
    pub lo_first: bool,
    /// key delivery kind per entry position (cycled)
    pub kinds: Vec<KeyKind>,
    pub faults: Vec<StorageFault>,
    pub hint: Hint,
    pub strict_end: bool,
    pub access_fault: Option<CallFault>,
    /// the format presents only the entries named in the `fields` argument of
    /// `deserialize_struct` (serde's flatten machinery and hint-driven formats)
    #[serde(default)]
    pub honour_fields: bool,
    /// what the format's `is_human_readable()` reports
    #[serde(default = "yes")]
    pub human_readable: bool,
    /// typed self-describing format: a seq/tuple request on a stored map (or a map request on a
    /// stored sequence) is refused by the format; struct and any requests take either
    #[serde(default)]
    pub typed_requests: bool,
}

fn yes() -> bool {
    true
}

/// How a record is handed to the visitor.
#[derive(Clone, Copy, Debug)]
pub struct Delivery {
    pub mode: Mode,
    pub hint: Hint,
    pub strict_end: bool,
    pub fault: Option<CallFault>,
    pub honour_fields: bool,
    pub human_readable: bool,
    pub typed_requests: bool,
    pub expect_struct_name: Option<&'static str>,
}

impl Delivery {
    pub fn clean(mode: Mode) -> Self {
        Delivery { mode, hint: Hint::Exact, strict_end: true, fault: None, honour_fields: false, human_readable: true, typed_requests: false, expect_struct_name: None }
    }
    fn run<'de>(&self, entries: &'de [Entry]) -> DeRun<'de> {
        let mut run = DeRun::new(entries, self.mode, self.hint, self.strict_end, self.fault);
        run.honour_fields = self.honour_fields;
        run.human_readable = self.human_readable;
        run.typed_requests = self.typed_requests;
        run.expect_struct_name = self.expect_struct_name.map(|s| s.to_string());
        run
    }
}

impl DeCase {
    pub fn delivery(&self) -> Delivery {
        Delivery { mode: self.mode, hint: self.hint, strict_end: self.strict_end, fault: self.access_fault, honour_fields: self.honour_fields, human_readable: self.human_readable, typed_requests: self.typed_requests, expect_struct_name: None }
    }
}

/// The damaged record delivered to the deserializer.
pub fn derive_stream(c: &DeCase) -> Vec<Entry> {
    derive_stream_counted(c).0
}

/// The damaged record, and for each storage fault whether it actually changed the record.
pub fn derive_stream_counted(c: &DeCase) -> (Vec<Entry>, Vec<bool>) {
    let mut effective = Vec::with_capacity(c.faults.len());
    let mut prev = derive_stream_prefix(c, 0);
    for n in 1..=c.faults.len() {
        let cur = derive_stream_prefix(c, n);
        effective.push(cur != prev);
        prev = cur;
    }
    (prev, effective)
}

fn derive_stream_prefix(c: &DeCase, nfaults: usize) -> Vec<Entry> {
    let kind_at = |i: usize| if c.kinds.is_empty() { KeyKind::Str } else { c.kinds[i % c.kinds.len()] };
    let mut es = vec![
        Entry { key: "hi".into(), kind: KeyKind::Str, val: Some(Slot::F64(c.hi)) },
        Entry { key: "lo".into(), kind: KeyKind::Str, val: Some(Slot::F64(c.lo)) },
    ];
    if c.lo_first && c.mode == Mode::Map {
        es.swap(0, 1);
    }
    // words are addressed by field name for word-level faults, so that they
    // mean the same thing in either key order
    fn find(es: &[Entry], name: &str) -> Option<usize> {
        es.iter().position(|e| e.key == name)
    }
    for f in c.faults.iter().take(nfaults) {
        match f {
            StorageFault::Truncate { tokens } => {
                let full = tokens / 2;
                if full < es.len() {
                    let odd = tokens % 2 == 1;
                    es.truncate(full + odd as usize);
                    if odd {
                        if let Some(last) = es.last_mut() {
                            last.val = None;
                        }
                    }
                }
            }
            StorageFault::DuplicateEntry { from, to } => {
                if *from < es.len() {
                    let e = es[*from].clone();
                    let at = (*to).min(es.len());
                    es.insert(at, e);
                }
            }
            StorageFault::SwapEntries { i, j } => {
                if *i < es.len() && *j < es.len() {
                    es.swap(*i, *j);
                }
            }
            StorageFault::DropEntry { entry } => {
                if *entry < es.len() {
                    es.remove(*entry);
                }
            }
            StorageFault::InsertUnknown { at, name, slot } => {
                let at = (*at).min(es.len());
                es.insert(at, Entry { key: name.clone(), kind: KeyKind::Str, val: Some(slot.clone()) });
            }
            StorageFault::RenameKey { entry, name } => {
                if let Some(e) = es.get_mut(*entry) {
                    e.key = name.clone();
                }
            }
            StorageFault::BitFlip { entry, bit } => {
                if let Some(Entry { val: Some(Slot::F64(b)), .. }) = es.get_mut(*entry) {
                    *b ^= 1u64 << (*bit % 64);
                }
            }
            StorageFault::SetWord { entry, bits, .. } => {
                if let Some(Entry { val: Some(Slot::F64(b)), .. }) = es.get_mut(*entry) {
                    *b = *bits;
                }
            }
            StorageFault::WordSwap => {
                if let (Some(a), Some(b)) = (find(&es, "hi"), find(&es, "lo")) {
                    let (va, vb) = (es[a].val.clone(), es[b].val.clone());
                    es[a].val = vb;
                    es[b].val = va;
                }
            }
            StorageFault::WordDup => {
                if let (Some(a), Some(b)) = (find(&es, "hi"), find(&es, "lo")) {
                    es[b].val = es[a].val.clone();
                }
            }
            StorageFault::TypeConfuse { entry, slot } => {
                if let Some(e) = es.get_mut(*entry) {
                    if e.val.is_some() {
                        e.val = Some(slot.clone());
                    }
                }
            }
        }
    }
    for (i, e) in es.iter_mut().enumerate() {
        e.kind = kind_at(i);
    }
    es
}

// ---------------------------------------------------------------- reference model

#[derive(Clone, Debug, PartialEq)]
pub enum Reason {
    Io,
    Eof,
    Missing,
    Duplicate,
    Unknown,
    Overlap,
    NonFinite,
}

#[derive(Clone, Debug, PartialEq)]
pub enum Expect {
    Ok(u64, u64),
    Err(Reason),
    /// the property is silent (type-confused slot, key delivered as bytes or
    /// index, wrong top-level shape, trailing elements in a lax format): only
    /// "Ok implies valid" and "no panic" are enforced
    Unspecified(&'static str),
}

#[derive(Clone, Copy, PartialEq)]
enum Cell {
    Empty,
    Word(u64),
    /// filled by a slot whose interpretation the property does not fix
    Soft,
}

fn classify_key(e: &Entry) -> (Option<u8>, bool) {
    // (field index or None for unknown, soft?)
    match e.kind {
        KeyKind::Index(i) => (
            match i {
                0 => Some(0),
                1 => Some(1),
                _ => None,
            },
            true,
        ),
        KeyKind::Bytes => (name_index(&e.key), true),
        _ => (name_index(&e.key), false),
    }
}

fn name_index(k: &str) -> Option<u8> {
    match k {
        "hi" => Some(0),
        "lo" => Some(1),
        _ => None,
    }
}

/// Sequential specification of struct decoding. No serde, no code under test.
pub fn model(all_entries: &[Entry], d: &Delivery, hint_given: bool) -> Expect {
    let (mode, strict_end, fault) = (d.mode, d.strict_end, d.fault);
    let _ = strict_end;
    // a hint-driven format shows the visitor only the struct's own fields — if the
    // visitor's owner asked for a struct and so gave a hint at all (with
    // `deserialize_any` / `deserialize_map` there is none and the format shows
    // everything); the struct's fields are (hi, lo) by the property, whatever
    // names the code declares
    let filtered: Vec<Entry>;
    let entries: &[Entry] = if d.honour_fields && hint_given && mode == Mode::Map {
        filtered = all_entries.iter().filter(|e| name_index(&e.key).is_some()).cloned().collect();
        &filtered
    } else {
        all_entries
    };
    let mut calls = 0usize;
    let io = |calls: &mut usize| -> bool {
        let hit = matches!(fault, Some(f) if f.at == *calls);
        *calls += 1;
        hit
    };
    let mut soft: Option<&'static str> = None;
    let mut cells = [Cell::Empty, Cell::Empty];
    match mode {
        Mode::Scalar => return Expect::Unspecified("scalar at top level"),
        Mode::Seq => {
            let mut pos = 0usize;
            for cell in cells.iter_mut() {
                if io(&mut calls) {
                    return Expect::Err(Reason::Io);
                }
                match entries.get(pos).and_then(|e| e.val.as_ref()) {
                    None => return Expect::Err(Reason::Missing),
                    Some(Slot::F64(b)) => *cell = Cell::Word(*b),
                    Some(_) => {
                        *cell = Cell::Soft;
                        soft = Some("type-confused slot");
                    }
                }
                pos += 1;
            }
            let leftover = entries.get(pos).map(|e| e.val.is_some()).unwrap_or(false);
            if leftover {
                // The property does not mention sequences that are too long. A strict
                // format refuses what the visitor leaves behind, but a visitor may also
                // drain the extra elements itself and accept, or reject them itself.
                soft = soft.or(Some("sequence longer than two elements"));
            }
        }
        Mode::Map => {
            let mut i = 0usize;
            loop {
                if io(&mut calls) {
                    return Expect::Err(Reason::Io);
                }
                let Some(e) = entries.get(i) else { break };
                if let KeyKind::Index(_) = e.kind {
                    // which index means which field is the format's convention, not the property's
                    return Expect::Unspecified("key delivered as index");
                }
                let (idx, key_soft) = classify_key(e);
                if key_soft {
                    // a visitor may reject this key outright (Err) or identify it and go on
                    soft = soft.or(Some("key delivered as bytes or index"));
                }
                let Some(idx) = idx else { return Expect::Err(Reason::Unknown) };
                if cells[idx as usize] != Cell::Empty {
                    return Expect::Err(Reason::Duplicate);
                }
                if io(&mut calls) {
                    return Expect::Err(Reason::Io);
                }
                match &e.val {
                    None => return Expect::Err(Reason::Eof),
                    Some(Slot::F64(b)) => cells[idx as usize] = Cell::Word(*b),
                    Some(_) => {
                        cells[idx as usize] = Cell::Soft;
                        soft = soft.or(Some("type-confused slot"));
                    }
                }
                i += 1;
            }
            if cells.iter().any(|c| *c == Cell::Empty) {
                return Expect::Err(Reason::Missing);
            }
        }
    }
    if let Some(why) = soft {
        return Expect::Unspecified(why);
    }
    let (Cell::Word(hi), Cell::Word(lo)) = (cells[0], cells[1]) else { unreachable!() };
    if !f64::from_bits(hi).is_finite() || !f64::from_bits(lo).is_finite() {
        return Expect::Err(Reason::NonFinite);
    }
    if !ref_valid_bits(hi, lo) {
        return Expect::Err(Reason::Overlap);
    }
    Expect::Ok(hi, lo)
}

/// Second, independently written model: serde's derive on an equivalent
/// struct, driven by the same simulated format with the same fault plan.
#[derive(Deserialize, Debug)]
#[serde(deny_unknown_fields)]
pub struct Ref {
    pub hi: f64,
    pub lo: f64,
}

/// A word that only accepts a number handed over as `f64` (`visit_f64`).
/// serde's own `f64` impl also accepts integers and `f32` and casts them; the
/// property is silent about such records, so the real-format legs run both
/// `Ref` and `RefStrict` and treat a record on which they disagree as
/// unspecified (safety only).
#[derive(Debug, Clone, Copy)]
#[allow(dead_code)]
pub struct StrictF64(pub f64);

impl<'de> Deserialize<'de> for StrictF64 {
    fn deserialize<D: serde::Deserializer<'de>>(d: D) -> Result<Self, D::Error> {
        struct V;
        impl serde::de::Visitor<'_> for V {
            type Value = StrictF64;
            fn expecting(&self, f: &mut std::fmt::Formatter) -> std::fmt::Result {
                f.write_str("a number typed as f64")
            }
            fn visit_f64<E: serde::de::Error>(self, v: f64) -> Result<StrictF64, E> {
                Ok(StrictF64(v))
            }
        }
        d.deserialize_f64(V)
    }
}

#[derive(Deserialize, Debug)]
#[serde(deny_unknown_fields)]
#[allow(dead_code)]
pub struct RefStrict {
    pub hi: StrictF64,
    pub lo: StrictF64,
}

/// A word read as liberally as a conforming implementation conceivably could:
/// any numeric type (cast), or a string that parses as f64.
#[derive(Debug, Clone, Copy)]
pub struct LenientF64(pub f64);

impl<'de> Deserialize<'de> for LenientF64 {
    fn deserialize<D: serde::Deserializer<'de>>(d: D) -> Result<Self, D::Error> {
        struct V;
        impl<'de> serde::de::Visitor<'de> for V {
            type Value = LenientF64;
            fn expecting(&self, f: &mut std::fmt::Formatter) -> std::fmt::Result {
                f.write_str("a number or a numeric string")
            }
            fn visit_f64<E: serde::de::Error>(self, v: f64) -> Result<LenientF64, E> {
                Ok(LenientF64(v))
            }
            fn visit_f32<E: serde::de::Error>(self, v: f32) -> Result<LenientF64, E> {
                Ok(LenientF64(v as f64))
            }
            fn visit_i64<E: serde::de::Error>(self, v: i64) -> Result<LenientF64, E> {
                Ok(LenientF64(v as f64))
            }
            fn visit_u64<E: serde::de::Error>(self, v: u64) -> Result<LenientF64, E> {
                Ok(LenientF64(v as f64))
            }
            fn visit_i128<E: serde::de::Error>(self, v: i128) -> Result<LenientF64, E> {
                Ok(LenientF64(v as f64))
            }
            fn visit_u128<E: serde::de::Error>(self, v: u128) -> Result<LenientF64, E> {
                Ok(LenientF64(v as f64))
            }
            fn visit_str<E: serde::de::Error>(self, v: &str) -> Result<LenientF64, E> {
                v.trim().parse::<f64>().map(LenientF64).map_err(|_| E::custom("not a numeric string"))
            }
            fn visit_bytes<E: serde::de::Error>(self, v: &[u8]) -> Result<LenientF64, E> {
                std::str::from_utf8(v).ok().and_then(|t| t.trim().parse::<f64>().ok()).map(LenientF64).ok_or_else(|| E::custom("not numeric bytes"))
            }
            fn visit_some<D2: serde::Deserializer<'de>>(self, d: D2) -> Result<LenientF64, D2::Error> {
                LenientF64::deserialize(d)
            }
            fn visit_newtype_struct<D2: serde::Deserializer<'de>>(self, d: D2) -> Result<LenientF64, D2::Error> {
                LenientF64::deserialize(d)
            }
        }
        d.deserialize_any(V)
    }
}

/// The most liberal conforming reader: like `Ref` for maps (unknown,
/// duplicate and missing fields are errors) but words are read leniently, a
/// sequence may carry extra elements (they are drained), and the container is
/// requested with `deserialize_any` instead of `deserialize_struct` (no
/// `fields` hint, so a hint-driven host shows it every entry).
#[derive(Debug)]
pub struct RefLenient {
    pub hi: f64,
    pub lo: f64,
}

struct RefLenientVisitor;

impl<'de> serde::de::Visitor<'de> for RefLenientVisitor {
    type Value = RefLenient;
    fn expecting(&self, f: &mut std::fmt::Formatter) -> std::fmt::Result {
        f.write_str("a (hi, lo) record")
    }
    // C20 lists overlap, non-finite, missing, duplicate and unknown as the must-reject cases; it
    // does not say that a bare number must be refused. A conforming implementation may read a
    // scalar as (x, 0).
    fn visit_f64<E: serde::de::Error>(self, v: f64) -> Result<RefLenient, E> {
        Ok(RefLenient { hi: v, lo: 0.0 })
    }
    fn visit_i64<E: serde::de::Error>(self, v: i64) -> Result<RefLenient, E> {
        Ok(RefLenient { hi: v as f64, lo: 0.0 })
    }
    fn visit_u64<E: serde::de::Error>(self, v: u64) -> Result<RefLenient, E> {
        Ok(RefLenient { hi: v as f64, lo: 0.0 })
    }
    fn visit_i128<E: serde::de::Error>(self, v: i128) -> Result<RefLenient, E> {
        Ok(RefLenient { hi: v as f64, lo: 0.0 })
    }
    fn visit_u128<E: serde::de::Error>(self, v: u128) -> Result<RefLenient, E> {
        Ok(RefLenient { hi: v as f64, lo: 0.0 })
    }
    fn visit_str<E: serde::de::Error>(self, v: &str) -> Result<RefLenient, E> {
        // a numeric string is (x, 0); any other string might be the implementation's own text
        // form ("1 + 0.5"), which C20 does not forbid it to read: accepted here with placeholder
        // words, which makes the record unspecified rather than must-reject
        Ok(RefLenient { hi: v.trim().parse::<f64>().unwrap_or(0.0), lo: 0.0 })
    }
    fn visit_bool<E: serde::de::Error>(self, _v: bool) -> Result<RefLenient, E> {
        Ok(RefLenient { hi: 0.0, lo: 0.0 })
    }
    fn visit_unit<E: serde::de::Error>(self) -> Result<RefLenient, E> {
        Ok(RefLenient { hi: 0.0, lo: 0.0 })
    }
    fn visit_none<E: serde::de::Error>(self) -> Result<RefLenient, E> {
        Ok(RefLenient { hi: 0.0, lo: 0.0 })
    }
    fn visit_seq<A: serde::de::SeqAccess<'de>>(self, mut seq: A) -> Result<RefLenient, A::Error> {
        use serde::de::Error;
        let hi: LenientF64 = seq.next_element()?.ok_or_else(|| A::Error::invalid_length(0, &self))?;
        let lo: LenientF64 = seq.next_element()?.ok_or_else(|| A::Error::invalid_length(1, &self))?;
        while seq.next_element::<serde::de::IgnoredAny>()?.is_some() {}
        Ok(RefLenient { hi: hi.0, lo: lo.0 })
    }
    fn visit_map<A: serde::de::MapAccess<'de>>(self, mut map: A) -> Result<RefLenient, A::Error> {
        use serde::de::Error;
        let (mut hi, mut lo) = (None, None);
        while let Some(k) = map.next_key::<String>()? {
            match k.as_str() {
                "hi" => {
                    if hi.is_some() {
                        return Err(A::Error::duplicate_field("hi"));
                    }
                    hi = Some(map.next_value::<LenientF64>()?.0);
                }
                "lo" => {
                    if lo.is_some() {
                        return Err(A::Error::duplicate_field("lo"));
                    }
                    lo = Some(map.next_value::<LenientF64>()?.0);
                }
                _ => return Err(A::Error::unknown_field("other", &["hi", "lo"])),
            }
        }
        Ok(RefLenient { hi: hi.ok_or_else(|| A::Error::missing_field("hi"))?, lo: lo.ok_or_else(|| A::Error::missing_field("lo"))? })
    }
}

impl<'de> Deserialize<'de> for RefLenient {
    fn deserialize<D: serde::Deserializer<'de>>(d: D) -> Result<Self, D::Error> {
        d.deserialize_any(RefLenientVisitor)
    }
}

/// The standard reader without the `fields` hint: identical to `Ref` in what it
/// accepts (f64 words via serde's own impl; unknown, duplicate and missing
/// fields are errors; exactly two sequence elements are read) but it asks for
/// the container with `deserialize_any`, so a hint-driven host (serde's
/// flatten) shows it every entry instead of only `hi` and `lo`.
#[derive(Debug)]
pub struct RefNoHint {
    pub hi: f64,
    pub lo: f64,
}

impl<'de> Deserialize<'de> for RefNoHint {
    fn deserialize<D: serde::Deserializer<'de>>(d: D) -> Result<Self, D::Error> {
        struct V;
        impl<'de> serde::de::Visitor<'de> for V {
            type Value = RefNoHint;
            fn expecting(&self, f: &mut std::fmt::Formatter) -> std::fmt::Result {
                f.write_str("a (hi, lo) record")
            }
            fn visit_seq<A: serde::de::SeqAccess<'de>>(self, mut seq: A) -> Result<RefNoHint, A::Error> {
                use serde::de::Error;
                let hi: f64 = seq.next_element()?.ok_or_else(|| A::Error::invalid_length(0, &self))?;
                let lo: f64 = seq.next_element()?.ok_or_else(|| A::Error::invalid_length(1, &self))?;
                Ok(RefNoHint { hi, lo })
            }
            fn visit_map<A: serde::de::MapAccess<'de>>(self, mut map: A) -> Result<RefNoHint, A::Error> {
                use serde::de::Error;
                let (mut hi, mut lo) = (None, None);
                while let Some(k) = map.next_key::<String>()? {
                    match k.as_str() {
                        "hi" => {
                            if hi.is_some() {
                                return Err(A::Error::duplicate_field("hi"));
                            }
                            hi = Some(map.next_value::<f64>()?);
                        }
                        "lo" => {
                            if lo.is_some() {
                                return Err(A::Error::duplicate_field("lo"));
                            }
                            lo = Some(map.next_value::<f64>()?);
                        }
                        _ => return Err(A::Error::unknown_field("other", &["hi", "lo"])),
                    }
                }
                Ok(RefNoHint { hi: hi.ok_or_else(|| A::Error::missing_field("hi"))?, lo: lo.ok_or_else(|| A::Error::missing_field("lo"))? })
            }
        }
        d.deserialize_any(V)
    }
}

/// Anything with two words (for the oracle family in the real-format legs).
pub trait Words {
    fn words(&self) -> (u64, u64);
}
impl Words for Ref {
    fn words(&self) -> (u64, u64) {
        (self.hi.to_bits(), self.lo.to_bits())
    }
}
impl Words for RefStrict {
    fn words(&self) -> (u64, u64) {
        (self.hi.0.to_bits(), self.lo.0.to_bits())
    }
}
impl Words for RefLenient {
    fn words(&self) -> (u64, u64) {
        (self.hi.to_bits(), self.lo.to_bits())
    }
}
impl Words for RefNoHint {
    fn words(&self) -> (u64, u64) {
        (self.hi.to_bits(), self.lo.to_bits())
    }
}

/// Combine the verdicts of the oracle family. A record's outcome is
/// determinate only when every conforming way of reading it agrees.
#[derive(Debug, Clone, PartialEq)]
pub enum FamilyVerdict {
    /// all readers accept the same, valid words
    Accept(Vec<(u64, u64)>),
    /// all readers reject, or all accept the same words and at least one pair is invalid
    Reject(String),
    /// conforming readers disagree: the property does not fix the outcome
    Unspecified(String),
}

pub fn family_verdict(standard: &Result<Vec<(u64, u64)>, String>, others: &[(&'static str, Result<Vec<(u64, u64)>, String>)]) -> FamilyVerdict {
    let validity = |ws: &Vec<(u64, u64)>| -> Result<(), String> {
        match ws.iter().find(|(h, l)| !ref_valid_bits(*h, *l)) {
            None => Ok(()),
            Some((h, l)) => Err(if f64::from_bits(*h).is_finite() && f64::from_bits(*l).is_finite() { "overlap".into() } else { "non-finite".into() }),
        }
    };
    // effective verdict of each reader: Ok(words) only if it parsed AND the words are all valid
    let eff = |r: &Result<Vec<(u64, u64)>, String>| -> Result<Vec<(u64, u64)>, String> {
        match r {
            Ok(ws) => validity(ws).map(|_| ws.clone()),
            Err(e) => Err(e.clone()),
        }
    };
    let s = eff(standard);
    for (name, o) in others {
        let e = eff(o);
        match (&s, &e) {
            (Ok(a), Ok(b)) if a == b => {}
            (Err(_), Err(_)) => {}
            _ => return FamilyVerdict::Unspecified(format!("the {name} reader disagrees with the standard one")),
        }
    }
    match s {
        Ok(ws) => FamilyVerdict::Accept(ws),
        Err(e) => FamilyVerdict::Reject(e),
    }
}

pub fn derive_model(entries: &[Entry], d: &Delivery) -> Result<(u64, u64), ()> {
    let mut run = d.run(entries);
    match Ref::deserialize(&mut run) {
        Ok(r) if ref_valid_bits(r.hi.to_bits(), r.lo.to_bits()) => Ok((r.hi.to_bits(), r.lo.to_bits())),
        _ => Err(()),
    }
}

// ---------------------------------------------------------------- execution

pub struct DeOutcome {
    pub result: Result<(u64, u64), SimError>,
    pub fired: bool,
    pub calls: usize,
    pub protocol_violations: u32,
    pub log: u64,
    pub sig: u64,
    pub fields_seen: Option<&'static [&'static str]>,
}

/// Code under test: `TwoFloat::deserialize` driven by the simulated format.
pub fn run_twofloat(entries: &[Entry], d: &Delivery) -> Result<DeOutcome, String> {
    let mut run = d.run(entries);
    let r = guarded(|| TwoFloat::deserialize(&mut run))?;
    Ok(DeOutcome {
        result: r.map(|t| (t.hi().to_bits(), t.lo().to_bits())),
        fired: run.fired,
        calls: run.calls,
        protocol_violations: run.protocol_violations,
        log: run.log.finish(),
        sig: run.sig.finish(),
        fields_seen: run.fields_seen,
    })
}

fn reject_probe(kind: &ErrKind, mode: Mode) -> &'static str {
    match (kind, mode) {
        (ErrKind::Io, _) => "de_err_io_propagated",
        (ErrKind::Eof, _) => "de_err_eof_in_value",
        (ErrKind::Trailing, _) => "de_err_trailing_by_format",
        (ErrKind::Protocol, _) => "de_err_protocol",
        (ErrKind::UnknownField(_), _) => "de_reject_unknown_field",
        (ErrKind::MissingField(f), _) if f == "hi" => "de_reject_missing_hi",
        (ErrKind::MissingField(_), _) => "de_reject_missing_lo",
        (ErrKind::DuplicateField(f), _) if f == "hi" => "de_reject_duplicate_hi",
        (ErrKind::DuplicateField(_), _) => "de_reject_duplicate_lo",
        (ErrKind::InvalidLength(0), _) => "de_reject_invalid_length_0",
        (ErrKind::InvalidLength(_), _) => "de_reject_invalid_length_1",
        (ErrKind::InvalidValue, Mode::Seq) => "de_reject_invalid_value_seq",
        (ErrKind::InvalidValue, _) => "de_reject_invalid_value_map",
        (ErrKind::InvalidType, _) => "de_reject_invalid_type",
        (ErrKind::Custom, _) => "de_reject_custom",
    }
}

fn is_lattice_fault(f: &StorageFault) -> bool {
    matches!(f, StorageFault::SetWord { label, .. } if label.starts_with("lattice_"))
}

pub fn execute(c: &DeCase) -> LegReport {
    let mut rep = LegReport::default();
    let (entries, effective) = derive_stream_counted(c);
    for (f, eff) in c.faults.iter().zip(&effective) {
        if is_lattice_fault(f) {
            rep.probes.hit("lattice_word_pair_delivered");
        } else if *eff {
            rep.faults_fired.hit(f.label());
        } else {
            rep.probes.hit("storage_fault_planned_without_effect");
        }
    }
    // the validity-gate lattice delivers chosen word pairs through `SetWord`: that is enumeration of
    // the delivered record, not an injected fault
    let is_lattice = |f: &StorageFault| matches!(f, StorageFault::SetWord { label, .. } if label.starts_with("lattice_"));
    rep.faulted = c.faults.iter().any(|f| !is_lattice(f)) || c.access_fault.is_some();
    rep.probes.hit(match c.mode {
        Mode::Seq => "de_mode_seq",
        Mode::Map => {
            if c.lo_first {
                "de_mode_map_lo_first"
            } else {
                "de_mode_map_hi_first"
            }
        }
        Mode::Scalar => "de_mode_scalar",
    });
    if c.mode == Mode::Map {
        for e in &entries {
            rep.probes.hit(match e.kind {
                KeyKind::Str => "de_key_visit_str",
                KeyKind::Borrowed => "de_key_visit_borrowed_str",
                KeyKind::Owned => "de_key_visit_string",
                KeyKind::Bytes => "de_key_visit_bytes",
                KeyKind::Index(_) => "de_key_visit_u64",
            });
        }
    }
    rep.probes.hit(match c.hint {
        Hint::Exact => "de_size_hint_exact",
        Hint::Absent => "de_size_hint_absent",
        Hint::Zero => "de_size_hint_zero_lie",
        Hint::Huge => "de_size_hint_huge_lie",
    });

    let dl = c.delivery();
    if c.honour_fields {
        rep.probes.hit("de_format_honours_fields_hint");
    }
    rep.probes.hit(if c.human_readable { "de_format_human_readable" } else { "de_format_binary" });
    if c.typed_requests {
        rep.probes.hit("de_format_typed_requests");
    }
    // model cross-check: hand model vs serde derive (which asks for a struct and so
    // gives the `fields` hint), where both are defined
    let expect = model(&entries, &dl, true);
    if !matches!(expect, Expect::Unspecified(_)) {
        let d = guarded(|| derive_model(&entries, &dl));
        let agree = match (&expect, &d) {
            (Expect::Ok(h, l), Ok(Ok((dh, dl)))) => h == dh && l == dl,
            (Expect::Err(_), Ok(Err(()))) => true,
            _ => false,
        };
        if !agree {
            rep.violations.push(viol(
                "HARNESS",
                format!("reference models disagree: hand model {:?}, serde derive {:?}", expect, d),
            ));
            return rep;
        }
        rep.probes.hit("de_models_agree");
    }

    let out = match run_twofloat(&entries, &dl) {
        Err(msg) => {
            rep.violations.push(viol("PANIC", format!("TwoFloat::deserialize panicked: {msg}")));
            rep.outcome = "panic".into();
            return rep;
        }
        Ok(o) => o,
    };
    // what the code under test is held to: the same model, under the environment it
    // actually created (did it give the format a `fields` hint or not?)
    let expect = if out.fields_seen.is_some() { expect } else { model(&entries, &dl, false) };
    rep.steps = out.calls as u64;
    rep.log.u64(out.log);
    rep.sig.u64(out.sig);
    rep.sig.byte(c.mode as u8);
    if out.fired {
        rep.faults_fired.hit(match c.access_fault {
            Some(CallFault { sticky: true, .. }) => "de_access_fault_sticky",
            _ => "de_access_fault_transient",
        });
    } else if c.access_fault.is_some() {
        rep.probes.hit("de_access_fault_planned_not_reached");
    }
    match out.fields_seen {
        Some(fs) if fs.len() == 2 && fs.contains(&"hi") && fs.contains(&"lo") => rep.probes.hit("de_fields_hint_names_hi_lo"),
        Some(_) => rep.probes.hit("de_fields_hint_names_something_else"),
        None => rep.probes.hit("de_no_deserialize_struct_call"),
    }
    if out.protocol_violations > 0 {
        rep.probes.hit("de_protocol_violation_by_visitor");
    }

    // S-safe: never Ok of an invalid value, whatever was delivered
    if let Ok((h, l)) = &out.result {
        if !ref_valid_bits(*h, *l) {
            rep.violations.push(viol(
                "DE_ACCEPTED_INVALID",
                format!("deserialize returned Ok with invalid words ({}, {})", values::hex(*h), values::hex(*l)),
            ));
        }
    }
    // An I/O error on a call the model itself makes must surface (that is the
    // `Expect::Err(Io)` arm below). An error on a call the model does not make — an
    // optional probe for a third element — may be ignored by the visitor: only the
    // safety clause applies then.
    if out.fired && out.result.is_ok() && !matches!(expect, Expect::Err(Reason::Io)) {
        rep.probes.hit("de_io_error_on_optional_call_ignored_by_visitor");
    }
    match (&expect, &out.result) {
        (Expect::Ok(h, l), Ok((gh, gl))) => {
            if h != gh || l != gl {
                rep.violations.push(viol(
                    "DE_UNFAITHFUL",
                    format!(
                        "delivered ({}, {}) decoded as ({}, {})",
                        values::hex(*h),
                        values::hex(*l),
                        values::hex(*gh),
                        values::hex(*gl)
                    ),
                ));
            } else {
                rep.probes.hit("de_accept_valid");
                let hf = f64::from_bits(*h);
                if let Some(hu) = half_ulp(hf) {
                    if l & !SIGN == hu.to_bits() {
                        rep.probes.hit("de_accept_exact_tie_even_hi");
                    }
                }
                if *l == SIGN {
                    rep.probes.hit("de_accept_lo_negative_zero");
                }
                if l & !SIGN != 0 && l & EXP_MASK == 0 {
                    rep.probes.hit("de_accept_lo_subnormal");
                }
            }
        }
        // The injected I/O error was actually returned to the visitor on a call the
        // model does not make (an implementation may probe for a third element, or
        // read on after it has what it needs): failing with that error is legitimate.
        (Expect::Ok(..), Err(_)) if out.fired => rep.probes.hit("de_io_error_on_call_beyond_model_propagated"),
        // serde documents size_hint as "the number of elements remaining, if known": a format
        // that lies about it breaks its own contract, and a visitor that trusts the number for
        // a length check is within its rights to refuse. Acceptance must still be faithful.
        (Expect::Ok(..), Err(_)) if matches!(c.hint, Hint::Zero | Hint::Huge) => rep.probes.hit("de_rejected_under_lying_size_hint_tolerated"),
        (Expect::Ok(h, l), Err(e)) => rep.violations.push(viol(
            "RT_REJECTED_VALID",
            format!("intact valid record ({}, {}) rejected: {}", values::hex(*h), values::hex(*l), e.msg),
        )),
        (Expect::Err(reason), Ok((gh, gl))) => {
            let class = match reason {
                Reason::Io => "DE_SWALLOWED_IO_ERROR",
                Reason::Eof => "DE_ACCEPTED_TRUNCATED",
                Reason::Missing => "DE_ACCEPTED_MISSING",
                Reason::Duplicate => "DE_ACCEPTED_DUPLICATE",
                Reason::Unknown => "DE_ACCEPTED_UNKNOWN",
                Reason::Overlap | Reason::NonFinite => "DE_ACCEPTED_INVALID",
            };
            // avoid reporting the same thing twice
            if !rep.violations.iter().any(|v| v.class == class) {
                rep.violations.push(viol(
                    class,
                    format!("record must be rejected ({:?}) but decoded as ({}, {})", reason, values::hex(*gh), values::hex(*gl)),
                ));
            }
        }
        (Expect::Err(reason), Err(e)) => {
            rep.probes.hit(reject_probe(&e.kind, c.mode));
            match reason {
                Reason::Overlap => {
                    rep.probes.hit(if c.mode == Mode::Seq { "de_overlap_rejected_via_seq" } else { "de_overlap_rejected_via_map" });
                    // which boundary was it?
                    let (h, l) = delivered_words(&entries, c.mode);
                    if let (Some(h), Some(l)) = (h, l) {
                        if let Some(hu) = half_ulp(f64::from_bits(h)) {
                            if l & !SIGN == hu.to_bits() {
                                rep.probes.hit("de_reject_exact_tie_odd_hi");
                            }
                        }
                    }
                }
                Reason::NonFinite => rep.probes.hit("de_nonfinite_rejected"),
                _ => {}
            }
        }
        (Expect::Unspecified(why), r) => {
            rep.probes.hit("de_unspecified_safety_only");
            rep.sig.str(why);
            if r.is_ok() {
                rep.probes.hit("de_unspecified_accepted");
            }
        }
    }
    rep.outcome = match &out.result {
        Ok((h, l)) => format!("Ok({}, {}) expect {:?}", values::hex(*h), values::hex(*l), expect),
        Err(e) => format!("Err({:?}) expect {:?}", e.kind, expect),
    };
    rep.sig.byte(out.result.is_ok() as u8);

    // the same delivery through `Deserialize::deserialize_in_place` (what derive-generated
    // code of an enclosing type may call): same verdict, and the place is never left invalid
    {
        let mut run = dl.run(&entries);
        let mut place = raw_twofloat(1.0f64.to_bits(), 0);
        match guarded(|| TwoFloat::deserialize_in_place(&mut run, &mut place)) {
            Err(msg) => rep.violations.push(viol("PANIC", format!("deserialize_in_place panicked: {msg}"))),
            Ok(r) => {
                let pw = (place.hi().to_bits(), place.lo().to_bits());
                // serde allows the place to be partially modified when an error is returned
                if r.is_err() && !ref_valid_bits(pw.0, pw.1) {
                    rep.probes.hit("de_in_place_left_invalid_place_after_error");
                }
                if r.is_ok() && !ref_valid_bits(pw.0, pw.1) {
                    rep.violations.push(viol(
                        "DE_ACCEPTED_INVALID",
                        format!("deserialize_in_place left invalid words ({}, {}) in the place", values::hex(pw.0), values::hex(pw.1)),
                    ));
                }
                match (&r, &out.result) {
                    (Ok(()), Ok(w)) if *w == pw => rep.probes.hit("de_in_place_agrees"),
                    (Err(_), Err(_)) => rep.probes.hit("de_in_place_agrees"),
                    _ => rep.violations.push(viol(
                        "DE_UNFAITHFUL",
                        format!(
                            "deserialize_in_place gives {} with place ({}, {}) where deserialize gives {:?}",
                            if r.is_ok() { "Ok" } else { "Err" },
                            values::hex(pw.0),
                            values::hex(pw.1),
                            out.result.as_ref().map(|(h, l)| (values::hex(*h), values::hex(*l))).map_err(|e| e.msg.clone())
                        ),
                    )),
                }
            }
        }
    }

    // recovery (bounded liveness): the intact record, faults off, decodes
    if rep.faulted && ref_valid_bits(c.hi, c.lo) {
        let clean = DeCase { faults: vec![], access_fault: None, kinds: vec![KeyKind::Str], ..c.clone() };
        if clean.mode != Mode::Scalar {
            let es = derive_stream(&clean);
            match run_twofloat(&es, &Delivery { honour_fields: c.honour_fields, human_readable: c.human_readable, typed_requests: c.typed_requests, ..Delivery::clean(clean.mode) }) {
                Ok(DeOutcome { result: Ok((h, l)), .. }) if h == c.hi && l == c.lo => rep.probes.hit("recovery_ok"),
                Ok(o) => rep.violations.push(viol(
                    "RECOVERY_FAILED",
                    format!("intact record after a faulted delivery gives {:?}", o.result.map_err(|e| e.msg)),
                )),
                Err(msg) => rep.violations.push(viol("PANIC", format!("deserialize panicked on recovery: {msg}"))),
            }
        }
    }
    rep
}

fn delivered_words(entries: &[Entry], mode: Mode) -> (Option<u64>, Option<u64>) {
    let word = |e: &Entry| match e.val {
        Some(Slot::F64(b)) => Some(b),
        _ => None,
    };
    match mode {
        Mode::Seq => (entries.first().and_then(word), entries.get(1).and_then(word)),
        _ => (
            entries.iter().find(|e| e.key == "hi").and_then(word),
            entries.iter().find(|e| e.key == "lo").and_then(word),
        ),
    }
}

// ---------------------------------------------------------------- generation

fn rand_slot(r: &mut Rng) -> Slot {
    match r.below(8) {
        0 => Slot::F64(r.next_u64()),
        1 => Slot::F32((r.next_u64() >> 32) as u32),
        2 => Slot::U64(r.below(1 << 20)),
        3 => Slot::I64(r.range(-1000, 1000)),
        4 => Slot::Bool(r.bool()),
        5 => Slot::Str((*r.pick(&["", "NaN", "inf", "1.0", "hi"])).to_string()),
        6 => Slot::Unit,
        _ => Slot::F64(1.0f64.to_bits()),
    }
}

/// Boundary-targeted and media-style word corruption for entry `entry`
/// holding field `is_hi`.
fn word_fault(r: &mut Rng, hi: u64, lo: u64, other: (u64, u64), entry_of_hi: usize, entry_of_lo: usize) -> StorageFault {
    let hf = f64::from_bits(hi);
    let sgn = if r.bool() { SIGN } else { 0 };
    let set = |entry: usize, bits: u64, label: &str| StorageFault::SetWord { entry, bits, label: label.into() };
    let h = half_ulp(hf).map(|x| x.to_bits());
    let q = half_ulp(hf).and_then(|x| {
        let k = values::exponent(hf) - 54;
        if k >= -1074 {
            let _ = x;
            Some(values::pow2(k).to_bits())
        } else {
            None
        }
    });
    match r.below(14) {
        0 => {
            let which = if r.bool() { entry_of_hi } else { entry_of_lo };
            let cur = if which == entry_of_hi { hi } else { lo };
            set(which, cur | EXP_MASK, "exponent_stuck_high")
        }
        1 => set(if r.bool() { entry_of_hi } else { entry_of_lo }, 0, "zero_fill"),
        2 => set(if r.bool() { entry_of_hi } else { entry_of_lo }, if r.bool() { other.0 } else { other.1 }, "stale_word"),
        3 => match h {
            Some(h) => set(entry_of_lo, h | sgn, "half_ulp"),
            None => StorageFault::WordDup,
        },
        4 => match h {
            Some(h) => set(entry_of_lo, next_up_bits(h) | sgn, "half_ulp_up"),
            None => StorageFault::WordSwap,
        },
        5 => match h {
            Some(h) => set(entry_of_lo, next_down_bits(h) | sgn, "half_ulp_down"),
            None => StorageFault::WordSwap,
        },
        6 => match q {
            Some(q) => set(entry_of_lo, q | sgn, "quarter_ulp"),
            None => StorageFault::WordDup,
        },
        7 => match q {
            Some(q) => set(entry_of_lo, next_up_bits(q) | sgn, "quarter_ulp_up"),
            None => StorageFault::WordDup,
        },
        8 => match q {
            Some(q) => set(entry_of_lo, next_down_bits(q) | sgn, "quarter_ulp_down"),
            None => StorageFault::WordDup,
        },
        9 => set(entry_of_hi, next_up_bits(hi), "hi_next_up"),
        10 => set(entry_of_hi, next_down_bits(hi), "hi_next_down"),
        11 => set(if r.bool() { entry_of_hi } else { entry_of_lo }, r.next_u64(), "random_word"),
        12 => StorageFault::WordSwap,
        _ => StorageFault::WordDup,
    }
}

pub fn generate(r: &mut Rng, hi: u64, lo: u64, other: (u64, u64)) -> DeCase {
    let mode = match r.below(40) {
        0 => Mode::Scalar,
        1..=15 => Mode::Seq,
        _ => Mode::Map,
    };
    let lo_first = r.bool();
    // key kinds: mostly the three string deliveries; occasionally bytes / index
    let nk = 1 + r.usize_below(4);
    let exotic = r.chance(1, 12);
    let kinds: Vec<KeyKind> = (0..nk)
        .map(|_| {
            if exotic && r.chance(1, 2) {
                if r.bool() {
                    KeyKind::Bytes
                } else {
                    KeyKind::Index(r.below(3))
                }
            } else {
                *r.pick(&[KeyKind::Str, KeyKind::Borrowed, KeyKind::Owned])
            }
        })
        .collect();
    let hint = match r.below(8) {
        0 => Hint::Absent,
        1 => Hint::Zero,
        2 => Hint::Huge,
        _ => Hint::Exact,
    };
    let strict_end = r.chance(2, 3);
    let honour_fields = mode == Mode::Map && r.chance(1, 5);
    let mut c = DeCase { hi, lo, mode, lo_first, kinds, faults: vec![], hint, strict_end, access_fault: None, honour_fields, human_readable: !r.chance(1, 4), typed_requests: r.chance(1, 3) };
    if r.chance(35, 100) {
        return c; // fault-free delivery
    }
    // swarm: each run enables a random subset of fault families
    let fam_struct = r.bool();
    let fam_word = r.bool();
    let fam_access = r.chance(1, 3);
    let fam_type = r.chance(1, 4);
    let (fam_struct, fam_word) = if !fam_struct && !fam_word && !fam_access && !fam_type { (true, true) } else { (fam_struct, fam_word) };
    let (e_hi, e_lo) = if c.lo_first && c.mode == Mode::Map { (1usize, 0usize) } else { (0, 1) };
    let nfaults = 1 + r.small(3) as usize;
    for _ in 0..nfaults {
        let fam = r.below(4);
        let f = match fam {
            0 if fam_struct => Some(match r.below(7) {
                0 => StorageFault::Truncate { tokens: r.usize_below(4) },
                1 => StorageFault::DuplicateEntry { from: r.usize_below(2), to: r.usize_below(3) },
                2 => StorageFault::SwapEntries { i: 0, j: 1 },
                3 => StorageFault::DropEntry { entry: r.usize_below(2) },
                4 | 5 => StorageFault::InsertUnknown {
                    at: r.usize_below(3),
                    name: crate::vocab::unknown_name(r),
                    slot: if r.bool() { Slot::F64(0) } else { rand_slot(r) },
                },
                _ => {
                    let entry = r.usize_below(2);
                    // half of the renames are near-miss spellings of the key that is being replaced
                    let key = if (entry == 0) != (c.lo_first && c.mode == Mode::Map) { "hi" } else { "lo" };
                    let name = if r.bool() { crate::vocab::decorated(r, key) } else { crate::vocab::unknown_name(r) };
                    StorageFault::RenameKey { entry, name }
                }
            }),
            1 | 2 if fam_word => Some(if r.chance(1, 3) {
                let bit = match r.below(4) {
                    0 => 63,
                    1 => 52,
                    2 => 0,
                    _ => r.below(64) as u8,
                };
                StorageFault::BitFlip { entry: r.usize_below(2), bit }
            } else {
                word_fault(r, hi, lo, other, e_hi, e_lo)
            }),
            3 if fam_type => Some(StorageFault::TypeConfuse { entry: r.usize_below(2), slot: rand_slot(r) }),
            _ => None,
        };
        if let Some(f) = f {
            // a duplicated entry often carries a different (stale / damaged) word than the original
            let dup = match &f {
                StorageFault::DuplicateEntry { from, to } => Some((*from, *to)),
                _ => None,
            };
            c.faults.push(f);
            if let Some((from, to)) = dup {
                if r.bool() {
                    let which = if r.bool() { to.min(2) } else if to <= from { from + 1 } else { from };
                    let bits = match r.below(6) {
                        0 => f64::NAN.to_bits(),
                        1 => f64::INFINITY.to_bits() | if r.bool() { SIGN } else { 0 },
                        2 => 0,
                        3 => other.0,
                        4 => 1.0f64.to_bits(),
                        _ => r.next_u64(),
                    };
                    c.faults.push(StorageFault::SetWord { entry: which, bits, label: "duplicate_with_other_word".into() });
                }
            }
        }
    }
    if fam_access || c.faults.is_empty() {
        // place the access fault inside the operation: count the calls of a fault-free delivery
        let es = derive_stream(&c);
        let ncalls = match run_twofloat(&es, &Delivery { fault: None, ..c.delivery() }) {
            Ok(o) => o.calls.max(1),
            Err(_) => 1,
        };
        c.access_fault = Some(CallFault { at: r.usize_below(ncalls), sticky: r.bool() });
    }
    c
}

pub fn shrink(c: &DeCase) -> Vec<DeCase> {
    let mut out = Vec::new();
    let mut push = |d: DeCase| {
        if d != *c {
            out.push(d);
        }
    };
    // drop faults one at a time
    for i in 0..c.faults.len() {
        let mut d = c.clone();
        d.faults.remove(i);
        push(d);
    }
    if c.access_fault.is_some() {
        push(DeCase { access_fault: None, ..c.clone() });
    }
    if let Some(f) = c.access_fault {
        push(DeCase { access_fault: Some(CallFault { at: f.at, sticky: true }), ..c.clone() });
        if f.at > 0 {
            push(DeCase { access_fault: Some(CallFault { at: f.at - 1, sticky: f.sticky }), ..c.clone() });
            push(DeCase { access_fault: Some(CallFault { at: 0, sticky: f.sticky }), ..c.clone() });
        }
    }
    // simplify presentation
    push(DeCase { hint: Hint::Exact, ..c.clone() });
    push(DeCase { strict_end: true, ..c.clone() });
    push(DeCase { kinds: vec![KeyKind::Str], ..c.clone() });
    push(DeCase { lo_first: false, ..c.clone() });
    push(DeCase { honour_fields: false, ..c.clone() });
    push(DeCase { human_readable: true, ..c.clone() });
    push(DeCase { typed_requests: false, ..c.clone() });
    // shrink fault parameters
    for (i, f) in c.faults.iter().enumerate() {
        let mut alts: Vec<StorageFault> = Vec::new();
        match f {
            StorageFault::BitFlip { entry, bit } => {
                for b in [0u8, 52, 63, bit / 2] {
                    alts.push(StorageFault::BitFlip { entry: *entry, bit: b });
                }
            }
            StorageFault::InsertUnknown { at, name, .. } => {
                alts.push(StorageFault::InsertUnknown { at: *at, name: name.clone(), slot: Slot::F64(0) });
                alts.push(StorageFault::InsertUnknown { at: *at, name: "x".into(), slot: Slot::F64(0) });
                alts.push(StorageFault::InsertUnknown { at: 2, name: name.clone(), slot: Slot::F64(0) });
            }
            StorageFault::Truncate { tokens } if *tokens > 0 => alts.push(StorageFault::Truncate { tokens: tokens - 1 }),
            StorageFault::TypeConfuse { entry, .. } => alts.push(StorageFault::TypeConfuse { entry: *entry, slot: Slot::Unit }),
            StorageFault::SetWord { entry, bits, label } => {
                let mk = |b: u64| StorageFault::SetWord { entry: *entry, bits: b, label: label.clone() };
                for b in [
                    bits & !values::MANT_MASK,
                    bits & !((1u64 << 32) - 1),
                    bits & !((1u64 << 16) - 1),
                    bits & !0xff,
                    bits & !SIGN,
                    (bits & !EXP_MASK) | (1023u64 << 52),
                ] {
                    if b != *bits {
                        alts.push(mk(b));
                    }
                }
            }
            _ => {}
        }
        for a in alts {
            let mut d = c.clone();
            d.faults[i] = a;
            push(d);
        }
    }
    // simplify the value (only to valid ones: the clean record stays a valid record)
    for (hi, lo) in values::shrink_words(c.hi, c.lo) {
        if ref_valid_bits(hi, lo) {
            push(DeCase { hi, lo, ..c.clone() });
        }
    }
    out
}
