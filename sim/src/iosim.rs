//! Simulated `io::Write` stream with short writes, EINTR, hard errors and "disk full" (`Ok(0)`).
//! Used by the JSON writer leg and by formatting into an `io::Write`; kept free of any
//! dependency on twofloat's serde impls so that the formatting-only simulator can use it.

use crate::common::STEP_CAP;
use crate::prng::Hash64;
use serde::{Deserialize, Serialize};
use std::io::{self, Write};

#[derive(Clone, Debug, Serialize, Deserialize, PartialEq, Default)]
pub struct WriterPlan {
    /// each `write` accepts at most this many bytes (short writes)
    pub max_chunk: Option<usize>,
    /// these `write` calls return `ErrorKind::Interrupted`
    pub interrupt_calls: Vec<usize>,
    /// this `write` call fails hard
    pub fail_at_call: Option<usize>,
    /// this `write` call returns `Ok(0)` (full disk)
    pub zero_at_call: Option<usize>,
    pub sticky: bool,
}

impl WriterPlan {
    pub fn is_faulty(&self) -> bool {
        self.max_chunk.is_some() || !self.interrupt_calls.is_empty() || self.fail_at_call.is_some() || self.zero_at_call.is_some()
    }
}

pub struct SimWriter<'a> {
    plan: &'a WriterPlan,
    pub data: Vec<u8>,
    pub calls: usize,
    pub interrupts: u32,
    pub shorts: u32,
    pub hard_fired: bool,
    pub zero_fired: bool,
    dead: bool,
    pub log: Hash64,
    pub sig: Hash64,
}

impl<'a> SimWriter<'a> {
    pub fn new(plan: &'a WriterPlan) -> Self {
        SimWriter {
            plan,
            data: Vec::new(),
            calls: 0,
            interrupts: 0,
            shorts: 0,
            hard_fired: false,
            zero_fired: false,
            dead: false,
            log: Hash64::default(),
            sig: Hash64::default(),
        }
    }
}

impl Write for SimWriter<'_> {
    fn write(&mut self, buf: &[u8]) -> io::Result<usize> {
        let idx = self.calls;
        self.calls += 1;
        if self.calls as u64 > STEP_CAP {
            panic!("simulator step cap exceeded in writer");
        }
        self.log.bytes(buf);
        if self.dead {
            self.log.byte(0xEE);
            self.sig.byte(0xEE);
            return Err(io::Error::new(io::ErrorKind::Other, "simulated device failure (sticky)"));
        }
        if self.plan.interrupt_calls.contains(&idx) {
            self.interrupts += 1;
            self.log.byte(0xE1);
            self.sig.byte(0xE1);
            return Err(io::Error::new(io::ErrorKind::Interrupted, "simulated EINTR"));
        }
        if self.plan.fail_at_call == Some(idx) {
            self.hard_fired = true;
            self.dead = self.plan.sticky;
            self.log.byte(0xEE);
            self.sig.byte(0xEE);
            return Err(io::Error::new(io::ErrorKind::Other, "simulated device failure"));
        }
        if self.plan.zero_at_call == Some(idx) && !buf.is_empty() {
            self.zero_fired = true;
            self.dead = self.plan.sticky;
            self.log.byte(0xE0);
            self.sig.byte(0xE0);
            return Ok(0);
        }
        let n = match self.plan.max_chunk {
            Some(m) if m.max(1) < buf.len() => {
                self.shorts += 1;
                m.max(1)
            }
            _ => buf.len(),
        };
        self.data.extend_from_slice(&buf[..n]);
        self.log.u64(n as u64);
        self.sig.byte(if n < buf.len() { 2 } else { 1 });
        Ok(n)
    }
    fn flush(&mut self) -> io::Result<()> {
        Ok(())
    }
}

