//! Shared plumbing: violation classes, per-run report, probe counters,
//! panic capture.

use crate::prng::Hash64;
use serde::{Deserialize, Serialize};
use std::cell::RefCell;
use std::collections::BTreeMap;
use std::panic::{self, AssertUnwindSafe};
use twofloat::TwoFloat;

/// Build a `TwoFloat` with exactly these words, if possible without going
/// through any code under test: `TwoFloat` is `#[repr(C)] { hi: f64, lo: f64 }`
/// (src/lib.rs), so a bit copy from `[f64; 2]` is used when size, alignment and
/// a probe through the accessors confirm that layout at start-up. If a
/// refactoring changed the layout, construction falls back to the crate's own
/// checked constructor (the Ser leg separately checks that `TryFrom` accepts
/// every reference-valid pair unchanged).
pub fn raw_twofloat(hi: u64, lo: u64) -> TwoFloat {
    use std::convert::TryFrom;
    let words: [f64; 2] = [f64::from_bits(hi), f64::from_bits(lo)];
    if layout_is_hi_lo() {
        // SAFETY: size and alignment were checked to equal those of [f64; 2]; every bit
        // pattern is a valid f64; the struct has no other fields (size 16).
        return unsafe { std::mem::transmute_copy::<[f64; 2], TwoFloat>(&words) };
    }
    match TwoFloat::try_from((words[0], words[1])) {
        Ok(t) => t,
        Err(_) => TwoFloat::new_add(words[0], words[1]),
    }
}

pub fn layout_is_hi_lo() -> bool {
    static OK: std::sync::OnceLock<bool> = std::sync::OnceLock::new();
    *OK.get_or_init(|| {
        if std::mem::size_of::<TwoFloat>() != 16 || std::mem::align_of::<TwoFloat>() != std::mem::align_of::<[f64; 2]>() {
            return false;
        }
        let (a, b) = (0x3ff0_0000_0000_0000u64, 0xbc90_0000_0000_0000u64);
        let words: [f64; 2] = [f64::from_bits(a), f64::from_bits(b)];
        // SAFETY: as above
        let t = unsafe { std::mem::transmute_copy::<[f64; 2], TwoFloat>(&words) };
        t.hi().to_bits() == a && t.lo().to_bits() == b
    })
}

pub fn construct_selfcheck() -> Result<(), String> {
    let t = raw_twofloat(0x3ff0_0000_0000_0000, 0xbc90_0000_0000_0000);
    if t.hi().to_bits() != 0x3ff0_0000_0000_0000 || t.lo().to_bits() != 0xbc90_0000_0000_0000 {
        return Err("cannot construct a TwoFloat with given words, neither by layout nor through TryFrom".into());
    }
    Ok(())
}

/// A single oracle failure. `class` is one of the stable names in
/// DESIGN.md §3.7.
#[derive(Clone, Debug, Serialize, Deserialize, PartialEq)]
pub struct Violation {
    pub class: String,
    pub detail: String,
}

pub fn viol(class: &str, detail: impl Into<String>) -> Violation {
    Violation { class: class.to_string(), detail: detail.into() }
}

/// Probe / fault counters: name -> count. BTreeMap so that iteration order is
/// deterministic.
#[derive(Default, Clone, Debug)]
pub struct Counters(pub BTreeMap<&'static str, u64>);

impl Counters {
    #[inline]
    pub fn hit(&mut self, name: &'static str) {
        *self.0.entry(name).or_insert(0) += 1;
    }
    pub fn add(&mut self, name: &'static str, n: u64) {
        *self.0.entry(name).or_insert(0) += n;
    }
    pub fn merge(&mut self, other: &Counters) {
        for (k, v) in &other.0 {
            *self.0.entry(k).or_insert(0) += v;
        }
    }
    pub fn get(&self, name: &str) -> u64 {
        self.0.get(name).copied().unwrap_or(0)
    }
}

/// What executing one leg case produced.
#[derive(Default, Clone)]
pub struct LegReport {
    pub violations: Vec<Violation>,
    /// hash of the complete seam-event log (every call across the seam with
    /// arguments and results) and the outcome: the determinism witness.
    pub log: Hash64,
    /// abstract signature (seam call kinds, result kinds, fault kinds,
    /// outcome class; values abstracted): the "distinct interleavings" measure.
    pub sig: Hash64,
    pub probes: Counters,
    pub faults_fired: Counters,
    /// seam events delivered (logical steps: the code has no clock)
    pub steps: u64,
    pub faulted: bool,
    /// short human summary of the outcome (for samples)
    pub outcome: String,
}

thread_local! {
    static LAST_PANIC: RefCell<Option<String>> = const { RefCell::new(None) };
    static GUARD_DEPTH: std::cell::Cell<u32> = const { std::cell::Cell::new(0) };
}

pub fn install_panic_hook() {
    panic::set_hook(Box::new(|info| {
        let msg = if let Some(s) = info.payload().downcast_ref::<&str>() {
            s.to_string()
        } else if let Some(s) = info.payload().downcast_ref::<String>() {
            s.clone()
        } else {
            "<non-string panic>".to_string()
        };
        let loc = info.location().map(|l| format!("{}:{}", l.file(), l.line())).unwrap_or_default();
        if GUARD_DEPTH.with(|d| d.get()) == 0 {
            // a panic outside any guarded region is a harness bug: make it loud
            eprintln!("HARNESS ERROR: unguarded panic: {msg} @ {loc}");
        }
        LAST_PANIC.with(|p| *p.borrow_mut() = Some(format!("{msg} @ {loc}")));
    }));
}

/// Run `f`, turning a panic into `Err(message)`.
pub fn guarded<T>(f: impl FnOnce() -> T) -> Result<T, String> {
    GUARD_DEPTH.with(|d| d.set(d.get() + 1));
    let r = panic::catch_unwind(AssertUnwindSafe(f));
    GUARD_DEPTH.with(|d| d.set(d.get() - 1));
    match r {
        Ok(v) => Ok(v),
        Err(_) => Err(LAST_PANIC.with(|p| p.borrow_mut().take()).unwrap_or_else(|| "panic".into())),
    }
}

/// Marker payload used by the simulator's own step cap (so a runaway mutant
/// becomes a reported failure instead of a hung check).
pub const STEP_CAP: u64 = 200_000;
