//! History: operations performed on *related* values before the checked
//! operation of a leg, in the same thread. The crate is meant to be stateless,
//! so a history must never change an outcome; every oracle is computed without
//! reference to the history, so any dependence on it (a cache keyed too
//! coarsely, a "seen an error once" flag, a scratch buffer that is not reset)
//! shows up as an ordinary violation of the checked operation — and the
//! history is part of the replay file, so it reproduces.

use crate::common::*;
use crate::deleg::{self, DeCase, Delivery};
use crate::fmtleg::{self, SimSink, SinkPlan, Tr};
use crate::prng::Rng;
use crate::serleg::{self, SerCase};
use crate::simformat::{CallFault, Hint, KeyKind, Mode};
use crate::values::{hexword, ref_valid_bits, SIGN};
use serde::{Deserialize, Serialize};

#[derive(Clone, Debug, Serialize, Deserialize, PartialEq)]
pub enum HistOp {
    Fmt {
        #[serde(with = "hexword")]
        hi: u64,
        #[serde(with = "hexword")]
        lo: u64,
        tr: Tr,
        plus: bool,
        prec: Option<usize>,
        /// the sink refuses this chunk (the operation fails part-way)
        fail_at_chunk: Option<usize>,
    },
    Ser {
        #[serde(with = "hexword")]
        hi: u64,
        #[serde(with = "hexword")]
        lo: u64,
        fail_at: Option<usize>,
    },
    /// decode the record [hi, lo] (which may be an invalid pair)
    De {
        #[serde(with = "hexword")]
        hi: u64,
        #[serde(with = "hexword")]
        lo: u64,
        mode: Mode,
        lo_first: bool,
        fail_at: Option<usize>,
    },
}

/// Perform the operation through the real code; its result is irrelevant to
/// the verdict (only a panic is reported) but a digest of it is returned so
/// that the determinism witness covers history operations too.
pub fn perform(op: &HistOp) -> Result<u64, String> {
    match op {
        HistOp::Fmt { hi, lo, tr, plus, prec, fail_at_chunk } => {
            let x = raw_twofloat(*hi, *lo);
            let plan = SinkPlan { fail_at_chunk: *fail_at_chunk, capacity: None, sticky: true, reentrant_hi: None, reentrant_depth: None, reentrant_spec: None };
            let mut sink = SimSink::new(&plan);
            let r = guarded(|| fmtleg::render_tf(&mut sink, &x, *tr, *plus, *prec))?;
            let mut h = sink.log;
            h.byte(r.is_ok() as u8);
            // a completed history rendering is held to the same content oracle as a checked one
            if r.is_ok() && fail_at_chunk.is_none() && ref_valid_bits(*hi, *lo) {
                let c = fmtleg::FmtCase { hi: *hi, lo: *lo, tr: *tr, plus: *plus, prec: *prec, sink: SinkPlan::default(), io: None, flags: None };
                let mut v = Vec::new();
                let mut probes = Counters::default();
                fmtleg::check_content(&c, &sink.data, &mut v, &mut probes);
                if let Some(first) = v.into_iter().next() {
                    return Err(format!("HISTORY-VIOLATION {}: {}", first.class, first.detail));
                }
            }
            Ok(h.finish())
        }
        HistOp::Ser { hi, lo, fail_at } => {
            let c = SerCase { hi: *hi, lo: *lo, fault: fail_at.map(|at| CallFault { at, sticky: false }), human_readable: true };
            let (r, run) = serleg::run_serializer(&c)?;
            let mut h = run.log;
            h.byte(r.is_ok() as u8);
            Ok(h.finish())
        }
        HistOp::De { hi, lo, mode, lo_first, fail_at } => {
            let c = DeCase {
                hi: *hi,
                lo: *lo,
                mode: *mode,
                lo_first: *lo_first,
                kinds: vec![KeyKind::Str],
                faults: vec![],
                hint: Hint::Exact,
                strict_end: true,
                access_fault: None,
                honour_fields: false,
                human_readable: true,
                typed_requests: false,
            };
            let es = deleg::derive_stream(&c);
            let d = Delivery { fault: fail_at.map(|at| CallFault { at, sticky: false }), ..Delivery::clean(*mode) };
            let out = deleg::run_twofloat(&es, &d)?;
            Ok(out.log ^ (out.result.is_ok() as u64))
        }
    }
}

/// Values related to `(hi, lo)`: same high word with another low word, same
/// low word under another high word, sign variants, neighbours.
fn related(r: &mut Rng, hi: u64, lo: u64, other: (u64, u64), allow_invalid: bool) -> (u64, u64) {
    for _ in 0..8 {
        let cand = match r.below(9) {
            0 => (hi, other.1),
            1 => (other.0, lo),
            2 => (hi, lo ^ SIGN),
            3 => (hi ^ SIGN, lo),
            4 => (hi, 0),
            5 => (hi, lo ^ (1u64 << r.below(52))),
            6 => (hi ^ (1u64 << r.below(52)), lo),
            7 => other,
            _ => (hi, lo),
        };
        if allow_invalid || ref_valid_bits(cand.0, cand.1) {
            return cand;
        }
    }
    other
}

/// Draw a history for a leg of kind `leg` (0 Fmt, 1 Ser, 2 De, 3 JsonWrite, 4 JsonRead, 5 Toml).
#[allow(clippy::too_many_arguments)]
pub fn generate(r: &mut Rng, leg: usize, hi: u64, lo: u64, other: (u64, u64), spec: Option<(Tr, bool, Option<usize>)>) -> Vec<HistOp> {
    if !r.chance(2, 5) {
        return Vec::new();
    }
    let n = 1 + r.below(3) as usize;
    let mut out = Vec::with_capacity(n);
    for _ in 0..n {
        let fail = r.chance(1, 4);
        let op = match leg {
            0 => {
                let (h, l) = related(r, hi, lo, other, false);
                let (tr, plus, prec) = match spec {
                    Some(s) if r.chance(2, 3) => s,
                    _ => (*r.pick(&[Tr::Display, Tr::LowerExp, Tr::UpperExp]), r.bool(), if r.bool() { None } else { Some(r.range(0, 20) as usize) }),
                };
                HistOp::Fmt { hi: h, lo: l, tr, plus, prec, fail_at_chunk: if fail { Some(r.usize_below(8)) } else { None } }
            }
            1 | 3 => {
                let (h, l) = related(r, hi, lo, other, false);
                HistOp::Ser { hi: h, lo: l, fail_at: if fail { Some(r.usize_below(4)) } else { None } }
            }
            _ => {
                let (h, l) = related(r, hi, lo, other, true);
                let mode = if r.bool() { Mode::Seq } else { Mode::Map };
                HistOp::De { hi: h, lo: l, mode, lo_first: r.bool(), fail_at: if fail { Some(r.usize_below(5)) } else { None } }
            }
        };
        out.push(op);
    }
    out
}
