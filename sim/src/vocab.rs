//! Names for unknown fields. A fixed list is easy to special-case around, so
//! names are also drawn at random (with prefix classes such as `$`, `_`, `@`,
//! `#`, `//`) and from a dictionary of the string and character literals found
//! in the crate's own sources (`src/{serialization,format,convert,lib}.rs` of
//! the tree under test): a key the code treats specially has to be spelled
//! somewhere in it.

use crate::prng::Rng;
use std::path::PathBuf;
use std::sync::OnceLock;

pub const FIXED: &[&str] = &[
    "secs", "nanos", "Hi", "LO", "hi ", " lo", "", "lo\0", "h", "hii", "low", "high", "hi\u{301}", "ｈｉ", "value", "0", "1",
    "a-rather-long-field-name-that-no-struct-would-reasonably-have-0123456789",
];

static DICT: OnceLock<Vec<String>> = OnceLock::new();

/// Where the crate under test lives: `TFSIM_CRATE_DIR`, else the path dependency in the
/// simulator's own Cargo.toml (resolved at compile time), else /repo.
pub fn crate_dir() -> PathBuf {
    if let Ok(d) = std::env::var("TFSIM_CRATE_DIR") {
        if !d.is_empty() {
            return PathBuf::from(d);
        }
    }
    let manifest = include_str!(concat!(env!("CARGO_MANIFEST_DIR"), "/Cargo.toml"));
    for line in manifest.lines() {
        if let Some(rest) = line.strip_prefix("twofloat = { path = \"") {
            if let Some(end) = rest.find('"') {
                return PathBuf::from(&rest[..end]);
            }
        }
    }
    PathBuf::from("/repo")
}

pub fn dictionary() -> &'static Vec<String> {
    DICT.get_or_init(|| {
        let dir = crate_dir();
        let mut out: Vec<String> = Vec::new();
        // every source file of the crate (a special-cased key may be spelled in a helper module)
        let mut stack = vec![dir.join("src")];
        let mut files = Vec::new();
        while let Some(d) = stack.pop() {
            let Ok(rd) = std::fs::read_dir(&d) else { continue };
            for p in rd.flatten().map(|e| e.path()) {
                if p.is_dir() {
                    stack.push(p);
                } else if p.extension().map(|e| e == "rs").unwrap_or(false) {
                    files.push(p);
                }
            }
        }
        files.sort();
        for f in files {
            let Ok(text) = std::fs::read_to_string(&f) else { continue };
            // the big coefficient tables hold no keys: skip files without a quote-heavy profile cheaply
            extract_literals(&text, &mut out);
        }
        // hexf64!("0x1.8p3") tables are string literals too: not key names
        out.retain(|t| !(t.starts_with("0x") || t.starts_with("-0x")));
        out.sort();
        out.dedup();
        out.retain(|t| t != "hi" && t != "lo" && !t.is_empty() && t.len() <= 40);
        out.truncate(1500);
        out
    })
}

fn extract_literals(text: &str, out: &mut Vec<String>) {
    let b: Vec<char> = text.chars().collect();
    let mut i = 0;
    while i < b.len() {
        // skip line comments (doc comments hold prose, not keys)
        if b[i] == '/' && i + 1 < b.len() && b[i + 1] == '/' {
            while i < b.len() && b[i] != '\n' {
                i += 1;
            }
            continue;
        }
        if b[i] == '"' {
            let mut j = i + 1;
            let mut raw = String::new();
            while j < b.len() && b[j] != '"' {
                if b[j] == '\\' && j + 1 < b.len() {
                    raw.push(b[j]);
                    j += 1;
                }
                raw.push(b[j]);
                j += 1;
            }
            out.push(unescape(&raw));
            i = j + 1;
            continue;
        }
        if b[i] == '\'' {
            // a char literal: 'x', '\n', '\u{feff}', '\x41' (lifetimes like 'a have no closing quote nearby)
            let mut j = i + 1;
            let mut raw = String::new();
            while j < b.len() && j < i + 12 && b[j] != '\'' {
                if b[j] == '\\' && j + 1 < b.len() {
                    raw.push(b[j]);
                    j += 1;
                }
                raw.push(b[j]);
                j += 1;
            }
            if j < b.len() && b[j] == '\'' && !raw.is_empty() {
                let t = unescape(&raw);
                if t.chars().count() == 1 {
                    out.push(t);
                    i = j + 1;
                    continue;
                }
            }
            i += 1;
            continue;
        }
        i += 1;
    }
}

/// Decode the escapes of a Rust string/char literal body (\\n \\t \\r \\0 \\\\ \\" \\' \\xNN \\u{…}).
fn unescape(raw: &str) -> String {
    let c: Vec<char> = raw.chars().collect();
    let mut out = String::new();
    let mut i = 0;
    while i < c.len() {
        if c[i] != '\\' || i + 1 >= c.len() {
            out.push(c[i]);
            i += 1;
            continue;
        }
        i += 1;
        match c[i] {
            'n' => out.push('\n'),
            't' => out.push('\t'),
            'r' => out.push('\r'),
            '0' => out.push('\0'),
            'x' if i + 2 < c.len() => {
                let h: String = c[i + 1..i + 3].iter().collect();
                if let Some(ch) = u8::from_str_radix(&h, 16).ok().map(|b| b as char) {
                    out.push(ch);
                }
                i += 2;
            }
            'u' if i + 1 < c.len() && c[i + 1] == '{' => {
                let mut j = i + 2;
                let mut h = String::new();
                while j < c.len() && c[j] != '}' {
                    if c[j] != '_' {
                        h.push(c[j]);
                    }
                    j += 1;
                }
                if let Some(ch) = u32::from_str_radix(&h, 16).ok().and_then(char::from_u32) {
                    out.push(ch);
                }
                i = j;
            }
            other => out.push(other),
        }
        i += 1;
    }
    out
}

fn random_ident(r: &mut Rng) -> String {
    const ALPHA: &[u8] = b"abcdefghijklmnopqrstuvwxyzABCDEFGHIJKLMNOPQRSTUVWXYZ0123456789_-";
    let n = 1 + r.usize_below(12);
    let mut s = String::new();
    for _ in 0..n {
        if r.chance(1, 40) {
            s.push(*r.pick(&['é', 'ß', 'λ', '中', '✓', ' ', '\u{feff}', '\u{200b}', '\u{200d}', '\u{00a0}', '\t', '\u{7f}', '\u{1}']));
        } else {
            s.push(ALPHA[r.usize_below(ALPHA.len())] as char);
        }
    }
    s
}

/// A key that is neither "hi" nor "lo".
pub fn unknown_name(r: &mut Rng) -> String {
    for _ in 0..8 {
        let name = match r.below(20) {
            0..=6 => (*r.pick(FIXED)).to_string(),
            7..=12 => {
                let d = dictionary();
                if d.is_empty() {
                    random_ident(r)
                } else {
                    let t = r.pick(d).clone();
                    match r.below(7) {
                        0 | 1 => t,
                        2 => format!("{t}{}", random_ident(r)),
                        3 => format!("{}{t}", random_ident(r)),
                        4 => format!("{t}{}", r.pick(&["schema", "comment", "id", "type", "hi", "lo"])),
                        5 => format!("{}{t}", r.pick(&["hi", "lo"])),
                        _ => format!("{t}{}{t}", r.pick(&["hi", "lo"])),
                    }
                }
            }
            _ => {
                let prefix = *r.pick(&["", "", "$", "_", "__", "@", "#", "//", "x-", ".", "-", "~", "%", "\u{feff}", "\u{200b}", " ", "\t"]);
                let body = if r.chance(1, 3) { (*r.pick(&["schema", "comment", "id", "type", "version", "meta", "hi", "lo", "high", "low"])).to_string() } else { random_ident(r) };
                format!("{prefix}{body}")
            }
        };
        if name != "hi" && name != "lo" {
            return name;
        }
    }
    "unknown".to_string()
}

/// The simulation rests on the crate being stateless and blind to its environment (no statics,
/// thread-locals, interior mutability, clocks, environment variables, thread or type identity).
/// That is not something sampling can establish, so the sources of the tree under test are
/// scanned for the constructs that would break the assumption; hits are reported as a note and
/// in the evidence (not a verdict: a conforming implementation may keep a correct cache).
pub fn state_and_environment_indicators() -> Vec<String> {
    const NEEDLES: &[&str] = &[
        "static ", "thread_local!", "Atomic", "Cell<", "RefCell", "OnceLock", "OnceCell", "Mutex", "RwLock", "lazy_static",
        "std::env", "env::var", "std::time", "Instant", "SystemTime", "std::thread", "thread::current", "type_name", "TypeId",
        "current_exe", "std::process", "process::exit", "std::fs", "std::net", "IsTerminal", "is_terminal", "is_x86_feature_detected",
        "is_aarch64_feature_detected", "std::io::stdout", "std::io::stderr", "std::io::stdin", "target_feature", "target_os", "target_arch", "target_pointer_width",
    ];
    let dir = crate_dir().join("src");
    let mut hits = Vec::new();
    let mut stack = vec![dir];
    while let Some(d) = stack.pop() {
        let Ok(rd) = std::fs::read_dir(&d) else { continue };
        let mut entries: Vec<_> = rd.flatten().map(|e| e.path()).collect();
        entries.sort();
        for p in entries {
            if p.is_dir() {
                stack.push(p);
            } else if p.extension().map(|e| e == "rs").unwrap_or(false) {
                let Ok(text) = std::fs::read_to_string(&p) else { continue };
                for (ln, line) in text.lines().enumerate() {
                    let code = line.split("//").next().unwrap_or("");
                    // `const`/`static` tables of literals inside `#[cfg(test)]` helpers also match "static ": keep it simple and report
                    for n in NEEDLES {
                        if code.contains(n) && !(n == &"static " && code.contains("'static")) {
                            hits.push(format!("{}:{}: {}", p.strip_prefix(crate_dir()).unwrap_or(&p).display(), ln + 1, n.trim()));
                            break;
                        }
                    }
                }
            }
        }
    }
    hits.sort();
    hits.truncate(40);
    hits
}

/// A near-miss spelling of `key` ("hi" or "lo"): the key wrapped in, prefixed or suffixed by an
/// invisible or trimmable character, a dictionary token, or a case change. A correct reader treats
/// it as an unknown field (and then misses the real one).
pub fn decorated(r: &mut Rng, key: &str) -> String {
    const INVISIBLE: &[&str] = &["\u{feff}", "\u{200b}", "\u{200d}", "\u{00a0}", " ", "\t", "\n", "\0", "\u{7f}", "_", "$", "@", "#", "-", ".", ":", "/"];
    for _ in 0..8 {
        let deco: String = if r.chance(2, 3) || dictionary().is_empty() { (*r.pick(INVISIBLE)).to_string() } else { r.pick(dictionary()).clone() };
        let name = match r.below(6) {
            0 | 1 => format!("{deco}{key}"),
            2 | 3 => format!("{key}{deco}"),
            4 => format!("{deco}{key}{deco}"),
            _ => key.to_uppercase(),
        };
        if name != "hi" && name != "lo" {
            return name;
        }
    }
    format!(" {key}")
}
