//! Names for unknown fields. A fixed list is easy to special-case around, so
//! names are also drawn at random (with prefix classes such as `$`, `_`, `@`,
//! `#`, `//`) and from a dictionary of the string and character literals found
//! in the crate's own sources (`src/{serialization,format,convert,lib}.rs` of
//! the tree under test): a key the code treats specially has to be spelled
//! somewhere in it.

use crate::prng::Rng;
use std::path::PathBuf;
use std::sync::OnceLock;

pub const FIXED: &[&str] = &[
    "secs", "nanos", "Hi", "LO", "hi ", " lo", "", "lo\0", "h", "hii", "low", "high", "hi\u{301}", "ｈｉ", "value", "0", "1",
    "a-rather-long-field-name-that-no-struct-would-reasonably-have-0123456789",
];

static DICT: OnceLock<Vec<String>> = OnceLock::new();

/// Where the crate under test lives: `TFSIM_CRATE_DIR`, else the path dependency in the
/// simulator's own Cargo.toml (resolved at compile time), else /repo.
pub fn crate_dir() -> PathBuf {
    if let Ok(d) = std::env::var("TFSIM_CRATE_DIR") {
        if !d.is_empty() {
            return PathBuf::from(d);
        }
    }
    let manifest = include_str!(concat!(env!("CARGO_MANIFEST_DIR"), "/Cargo.toml"));
    for line in manifest.lines() {
        if let Some(rest) = line.strip_prefix("twofloat = { path = \"") {
            if let Some(end) = rest.find('"') {
                return PathBuf::from(&rest[..end]);
            }
        }
    }
    PathBuf::from("/repo")
}

pub fn dictionary() -> &'static Vec<String> {
    DICT.get_or_init(|| {
        let dir = crate_dir();
        let mut out: Vec<String> = Vec::new();
        for f in ["src/serialization.rs", "src/format.rs", "src/convert.rs", "src/lib.rs", "src/base.rs"] {
            let Ok(text) = std::fs::read_to_string(dir.join(f)) else { continue };
            extract_literals(&text, &mut out);
        }
        out.sort();
        out.dedup();
        out.retain(|t| t != "hi" && t != "lo" && !t.is_empty() && t.len() <= 40);
        out.truncate(400);
        out
    })
}

fn extract_literals(text: &str, out: &mut Vec<String>) {
    let b: Vec<char> = text.chars().collect();
    let mut i = 0;
    while i < b.len() {
        // skip line comments (doc comments hold prose, not keys)
        if b[i] == '/' && i + 1 < b.len() && b[i + 1] == '/' {
            while i < b.len() && b[i] != '\n' {
                i += 1;
            }
            continue;
        }
        if b[i] == '"' {
            let mut j = i + 1;
            let mut s = String::new();
            while j < b.len() && b[j] != '"' {
                if b[j] == '\\' && j + 1 < b.len() {
                    j += 1;
                }
                s.push(b[j]);
                j += 1;
            }
            out.push(s);
            i = j + 1;
            continue;
        }
        if b[i] == '\'' && i + 2 < b.len() && b[i + 2] == '\'' && b[i + 1] != '\\' {
            out.push(b[i + 1].to_string());
            i += 3;
            continue;
        }
        i += 1;
    }
}

fn random_ident(r: &mut Rng) -> String {
    const ALPHA: &[u8] = b"abcdefghijklmnopqrstuvwxyzABCDEFGHIJKLMNOPQRSTUVWXYZ0123456789_-";
    let n = 1 + r.usize_below(12);
    let mut s = String::new();
    for _ in 0..n {
        if r.chance(1, 40) {
            s.push(*r.pick(&['é', 'ß', 'λ', '中', '✓', ' ']));
        } else {
            s.push(ALPHA[r.usize_below(ALPHA.len())] as char);
        }
    }
    s
}

/// A key that is neither "hi" nor "lo".
pub fn unknown_name(r: &mut Rng) -> String {
    for _ in 0..8 {
        let name = match r.below(20) {
            0..=6 => (*r.pick(FIXED)).to_string(),
            7..=12 => {
                let d = dictionary();
                if d.is_empty() {
                    random_ident(r)
                } else {
                    let t = r.pick(d).clone();
                    match r.below(5) {
                        0 | 1 => t,
                        2 => format!("{t}{}", random_ident(r)),
                        3 => format!("{}{t}", random_ident(r)),
                        _ => format!("{t}{}", r.pick(&["schema", "comment", "id", "type", "hi", "lo"])),
                    }
                }
            }
            _ => {
                let prefix = *r.pick(&["", "", "$", "_", "__", "@", "#", "//", "x-", ".", "-", "~", "%"]);
                let body = if r.chance(1, 3) { (*r.pick(&["schema", "comment", "id", "type", "version", "meta", "hi", "lo", "high", "low"])).to_string() } else { random_ident(r) };
                format!("{prefix}{body}")
            }
        };
        if name != "hi" && name != "lo" {
            return name;
        }
    }
    "unknown".to_string()
}

/// The simulation rests on the crate being stateless and blind to its environment (no statics,
/// thread-locals, interior mutability, clocks, environment variables, thread or type identity).
/// That is not something sampling can establish, so the sources of the tree under test are
/// scanned for the constructs that would break the assumption; hits are reported as a note and
/// in the evidence (not a verdict: a conforming implementation may keep a correct cache).
pub fn state_and_environment_indicators() -> Vec<String> {
    const NEEDLES: &[&str] = &[
        "static ", "thread_local!", "Atomic", "Cell<", "RefCell", "OnceLock", "OnceCell", "Mutex", "RwLock", "lazy_static",
        "std::env", "env::var", "std::time", "Instant", "SystemTime", "std::thread", "thread::current", "type_name", "TypeId",
        "current_exe", "std::process", "std::fs", "std::net", "target_feature", "target_os", "target_arch", "target_pointer_width",
    ];
    let dir = crate_dir().join("src");
    let mut hits = Vec::new();
    let mut stack = vec![dir];
    while let Some(d) = stack.pop() {
        let Ok(rd) = std::fs::read_dir(&d) else { continue };
        let mut entries: Vec<_> = rd.flatten().map(|e| e.path()).collect();
        entries.sort();
        for p in entries {
            if p.is_dir() {
                stack.push(p);
            } else if p.extension().map(|e| e == "rs").unwrap_or(false) {
                let Ok(text) = std::fs::read_to_string(&p) else { continue };
                for (ln, line) in text.lines().enumerate() {
                    let code = line.split("//").next().unwrap_or("");
                    // `const`/`static` tables of literals inside `#[cfg(test)]` helpers also match "static ": keep it simple and report
                    for n in NEEDLES {
                        if code.contains(n) && !(n == &"static " && code.contains("'static")) {
                            hits.push(format!("{}:{}: {}", p.strip_prefix(crate_dir()).unwrap_or(&p).display(), ln + 1, n.trim()));
                            break;
                        }
                    }
                }
            }
        }
    }
    hits.sort();
    hits.truncate(40);
    hits
}
