//! The only source of randomness in the simulator: splitmix64 for seed
//! derivation, xoshiro256** for the per-run stream. Nothing else in the
//! process draws random numbers, reads clocks or iterates hash maps.

#[inline]
pub fn splitmix64(state: &mut u64) -> u64 {
    *state = state.wrapping_add(0x9E37_79B9_7F4A_7C15);
    let mut z = *state;
    z = (z ^ (z >> 30)).wrapping_mul(0xBF58_476D_1CE4_E5B9);
    z = (z ^ (z >> 27)).wrapping_mul(0x94D0_49BB_1331_11EB);
    z ^ (z >> 31)
}

/// Seed of run `index` under base seed `base`.
pub fn run_seed(base: u64, index: u64) -> u64 {
    let mut s = base ^ 0xD1B5_4A32_D192_ED03u64.wrapping_mul(index.wrapping_add(1));
    let a = splitmix64(&mut s);
    let mut t = a ^ index.rotate_left(17);
    splitmix64(&mut t)
}

#[derive(Clone)]
pub struct Rng {
    s: [u64; 4],
}

impl Rng {
    pub fn new(seed: u64) -> Self {
        let mut st = seed;
        let s = [
            splitmix64(&mut st),
            splitmix64(&mut st),
            splitmix64(&mut st),
            splitmix64(&mut st),
        ];
        Rng { s }
    }

    #[inline]
    pub fn next_u64(&mut self) -> u64 {
        let r = self.s[1].wrapping_mul(5).rotate_left(7).wrapping_mul(9);
        let t = self.s[1] << 17;
        self.s[2] ^= self.s[0];
        self.s[3] ^= self.s[1];
        self.s[1] ^= self.s[2];
        self.s[0] ^= self.s[3];
        self.s[2] ^= t;
        self.s[3] = self.s[3].rotate_left(45);
        r
    }

    /// Uniform in 0..n (n > 0). Multiply-shift; bias is irrelevant here.
    #[inline]
    pub fn below(&mut self, n: u64) -> u64 {
        debug_assert!(n > 0);
        ((self.next_u64() as u128 * n as u128) >> 64) as u64
    }

    #[inline]
    pub fn usize_below(&mut self, n: usize) -> usize {
        self.below(n as u64) as usize
    }

    /// Inclusive range.
    #[inline]
    pub fn range(&mut self, lo: i64, hi: i64) -> i64 {
        debug_assert!(lo <= hi);
        lo + self.below((hi - lo) as u64 + 1) as i64
    }

    /// True with probability num/den.
    #[inline]
    pub fn chance(&mut self, num: u64, den: u64) -> bool {
        self.below(den) < num
    }

    #[inline]
    pub fn bool(&mut self) -> bool {
        self.next_u64() >> 63 == 1
    }

    pub fn pick<'a, T>(&mut self, xs: &'a [T]) -> &'a T {
        &xs[self.usize_below(xs.len())]
    }

    /// Index drawn according to integer weights.
    pub fn weighted(&mut self, weights: &[u32]) -> usize {
        let total: u64 = weights.iter().map(|w| *w as u64).sum();
        let mut x = self.below(total);
        for (i, w) in weights.iter().enumerate() {
            if x < *w as u64 {
                return i;
            }
            x -= *w as u64;
        }
        weights.len() - 1
    }

    /// Geometric-ish small count: 0 with p=1/2, 1 with 1/4, ... capped.
    pub fn small(&mut self, cap: u32) -> u32 {
        let z = (self.next_u64() | 1u64 << 63).trailing_zeros();
        z.min(cap)
    }
}

/// FNV-1a style 64-bit incremental hash used for seam-event logs. Logging
/// through it never touches the PRNG.
#[derive(Clone, Copy)]
pub struct Hash64(pub u64);

impl Default for Hash64 {
    fn default() -> Self {
        Hash64(0xcbf2_9ce4_8422_2325)
    }
}

impl Hash64 {
    #[inline]
    pub fn byte(&mut self, b: u8) {
        self.0 ^= b as u64;
        self.0 = self.0.wrapping_mul(0x0000_0100_0000_01B3);
    }
    #[inline]
    pub fn u64(&mut self, v: u64) {
        // mix whole word at once (cheaper than 8 byte steps, still order sensitive)
        self.0 ^= v;
        self.0 = self.0.wrapping_mul(0x0000_0100_0000_01B3);
        self.0 ^= self.0 >> 29;
    }
    #[inline]
    pub fn bytes(&mut self, bs: &[u8]) {
        self.u64(bs.len() as u64);
        for b in bs {
            self.byte(*b);
        }
    }
    #[inline]
    pub fn str(&mut self, s: &str) {
        self.bytes(s.as_bytes());
    }
    pub fn finish(&self) -> u64 {
        let mut z = self.0;
        z = (z ^ (z >> 30)).wrapping_mul(0xBF58_476D_1CE4_E5B9);
        z = (z ^ (z >> 27)).wrapping_mul(0x94D0_49BB_1331_11EB);
        z ^ (z >> 31)
    }
}
