//! Leg C — the same transfer through the real `serde_json` reader and writer
//! state machines over simulated byte streams (`io::Read` / `io::Write` with
//! short transfers, EINTR, hard errors, early EOF, full disk) and byte-level
//! media corruption. Oracle: serde's derive on `Ref` fed the identical bytes
//! through an identically planned reader, then the reference predicate.

use crate::common::*;
use crate::deleg::{family_verdict, FamilyVerdict, Ref, RefLenient, RefNoHint, RefStrict, Words};
use crate::prng::{Hash64, Rng};
use crate::values::{self, half_ulp, hexword, next_down_bits, next_up_bits, ref_valid_bits, SIGN};
use serde::{Deserialize, Serialize};
use std::io::{self, Read, Write};
use twofloat::TwoFloat;

#[derive(Serialize, Clone, Copy)]
struct RefSer {
    hi: f64,
    lo: f64,
}

// ---------------------------------------------------------------- host structures
//
// A TwoFloat rarely travels alone: it sits inside user structs, options,
// collections, flattened or tagged. These hosts put serde's own buffering
// deserializers (Content / FlatMap / tagged-content) between the data format
// and twofloat's visitor — further real implementations of the seam.

#[derive(Clone, Copy, Debug, Serialize, Deserialize, PartialEq, Eq, Default)]
pub enum Host {
    #[default]
    Bare,
    Flatten,
    Untagged,
    Tagged,
    Opt,
    VecOf,
    MapOf,
    Tuple,
    /// several records one after the other in one byte stream (JSON lines), read with serde_json's StreamDeserializer
    Stream,
}

pub const HOSTS: [Host; 9] =
    [Host::Bare, Host::Flatten, Host::Untagged, Host::Tagged, Host::Opt, Host::VecOf, Host::MapOf, Host::Tuple, Host::Stream];

impl Host {
    pub fn name(self) -> &'static str {
        match self {
            Host::Bare => "bare",
            Host::Flatten => "flatten",
            Host::Untagged => "untagged",
            Host::Tagged => "internally_tagged",
            Host::Opt => "option",
            Host::VecOf => "vec",
            Host::MapOf => "btreemap",
            Host::Tuple => "tuple",
            Host::Stream => "stream",
        }
    }
}

#[derive(Serialize, Deserialize)]
struct Flat<T> {
    id: u32,
    #[serde(flatten)]
    v: T,
}

#[derive(Serialize, Deserialize)]
#[serde(untagged)]
enum Unt<T> {
    T(T),
    F(f64),
    S(String),
}

#[derive(Serialize, Deserialize)]
#[serde(tag = "kind")]
enum Tag<T> {
    Two(T),
    Other { x: i32 },
}

fn host_to_string<T: Serialize + Copy>(h: Host, v: T, w: T) -> serde_json::Result<String> {
    match h {
        Host::Bare => serde_json::to_string(&v),
        Host::Flatten => serde_json::to_string(&Flat { id: 7, v }),
        Host::Untagged => serde_json::to_string(&Unt::T(v)),
        Host::Tagged => serde_json::to_string(&Tag::Two(v)),
        Host::Opt => serde_json::to_string(&Some(v)),
        Host::VecOf => serde_json::to_string(&vec![v, w]),
        Host::MapOf => {
            let mut m = std::collections::BTreeMap::new();
            m.insert("a".to_string(), v);
            m.insert("b".to_string(), w);
            serde_json::to_string(&m)
        }
        Host::Tuple => serde_json::to_string(&(v, w)),
        Host::Stream => Ok(format!("{}\n{}\n", serde_json::to_string(&v)?, serde_json::to_string(&w)?)),
    }
}

/// Deserialize the host and return the records found inside it.
fn host_from<'de, T: Deserialize<'de>, D: serde::Deserializer<'de>>(h: Host, d: D) -> Result<Vec<T>, D::Error> {
    Ok(match h {
        Host::Bare => vec![T::deserialize(d)?],
        Host::Flatten => vec![Flat::<T>::deserialize(d)?.v],
        Host::Untagged => match Unt::<T>::deserialize(d)? {
            Unt::T(t) => vec![t],
            _ => vec![],
        },
        Host::Tagged => match Tag::<T>::deserialize(d)? {
            Tag::Two(t) => vec![t],
            _ => vec![],
        },
        Host::Opt => Option::<T>::deserialize(d)?.into_iter().collect(),
        Host::VecOf => Vec::<T>::deserialize(d)?,
        Host::MapOf => std::collections::BTreeMap::<String, T>::deserialize(d)?.into_values().collect(),
        Host::Tuple => {
            let (a, b) = <(T, T)>::deserialize(d)?;
            vec![a, b]
        }
        Host::Stream => unreachable!("streams are read by read_as"),
    })
}

// ---------------------------------------------------------------- writer side

pub use crate::iosim::{SimWriter, WriterPlan};

#[derive(Clone, Debug, Serialize, Deserialize, PartialEq)]
pub struct JsonWriteCase {
    #[serde(with = "hexword")]
    pub hi: u64,
    #[serde(with = "hexword")]
    pub lo: u64,
    pub pretty: bool,
    pub plan: WriterPlan,
}

fn to_writer_generic<T: Serialize, W: Write>(w: W, v: &T, pretty: bool) -> serde_json::Result<()> {
    if pretty {
        serde_json::to_writer_pretty(w, v)
    } else {
        serde_json::to_writer(w, v)
    }
}

fn decode_all(bytes: &[u8]) -> [Result<(u64, u64), String>; 3] {
    let f = |r: serde_json::Result<TwoFloat>| r.map(|t| (t.hi().to_bits(), t.lo().to_bits())).map_err(|e| e.to_string());
    [
        f(serde_json::from_slice::<TwoFloat>(bytes)),
        match std::str::from_utf8(bytes) {
            Ok(s) => f(serde_json::from_str::<TwoFloat>(s)),
            Err(e) => Err(e.to_string()),
        },
        f(serde_json::from_reader::<_, TwoFloat>(bytes)),
    ]
}

pub fn execute_write(c: &JsonWriteCase) -> LegReport {
    let mut rep = LegReport::default();
    if !ref_valid_bits(c.hi, c.lo) {
        rep.violations.push(viol("HARNESS", "json write case with a value that is not reference-valid"));
        return rep;
    }
    let x = raw_twofloat(c.hi, c.lo);
    let refv = RefSer { hi: f64::from_bits(c.hi), lo: f64::from_bits(c.lo) };
    // expected bytes: serde derive on the equivalent struct through the same serializer
    let mut expected = Vec::new();
    if to_writer_generic(&mut expected, &refv, c.pretty).is_err() {
        rep.violations.push(viol("HARNESS", "serde_json failed to write the reference struct"));
        return rep;
    }
    // trusted-base self-check: serde_json number I/O is exact
    match serde_json::from_slice::<Ref>(&expected) {
        Ok(r) if r.hi.to_bits() == c.hi && r.lo.to_bits() == c.lo => {}
        other => {
            rep.violations.push(viol("HARNESS", format!("serde_json f64 round trip is not bit-exact: {:?}", other.map(|r| (r.hi, r.lo)).map_err(|e| e.to_string()))));
            return rep;
        }
    }

    // fault-free write
    let ideal_plan = WriterPlan::default();
    let mut w0 = SimWriter::new(&ideal_plan);
    let r0 = match guarded(|| to_writer_generic(&mut w0, &x, c.pretty)) {
        Ok(r) => r,
        Err(msg) => {
            rep.violations.push(viol("PANIC", format!("serialize to JSON panicked: {msg}")));
            return rep;
        }
    };
    rep.steps += w0.calls as u64;
    rep.log.u64(w0.log.finish());
    if let Err(e) = &r0 {
        rep.violations.push(viol("SER_SPURIOUS_ERR", format!("serialize to a fault-free JSON writer failed: {e}")));
    } else if w0.data != expected {
        rep.violations.push(viol(
            "SER_SHAPE",
            format!(
                "JSON output {:?} differs from that of a two-field struct (hi, lo): {:?}",
                String::from_utf8_lossy(&w0.data),
                String::from_utf8_lossy(&expected)
            ),
        ));
    } else {
        rep.probes.hit("json_write_shape_ok");
    }
    let clean_calls = w0.calls;

    // S-rt through the real format: own output, three reader APIs
    if r0.is_ok() {
        let decoded = match guarded(|| decode_all(&w0.data)) {
            Ok(d) => d.to_vec(),
            Err(msg) => {
                rep.violations.push(viol("PANIC", format!("deserialize from own JSON output panicked: {msg}")));
                Vec::new()
            }
        };
        for (i, res) in decoded.into_iter().enumerate() {
            let api = ["from_slice", "from_str", "from_reader"][i];
            match res {
                Ok((h, l)) if h == c.hi && l == c.lo => rep.probes.hit("json_rt_ok"),
                Ok((h, l)) => rep.violations.push(viol(
                    "RT_MISMATCH",
                    format!("JSON round trip via {api}: ({}, {}) came back as ({}, {})", values::hex(c.hi), values::hex(c.lo), values::hex(h), values::hex(l)),
                )),
                Err(e) => rep.violations.push(viol("RT_REJECTED_VALID", format!("JSON round trip via {api}: own output rejected: {e}"))),
            }
        }
        // the Value-tree serializer / deserializer pair (different seam implementations)
        match guarded(|| serde_json::to_value(x)) {
            Ok(Ok(v)) => {
                if Some(&v) != serde_json::to_value(&refv).ok().as_ref() {
                    rep.violations.push(viol("SER_SHAPE", format!("to_value gives {v}, not the two-field struct")));
                }
                match guarded(|| serde_json::from_value::<TwoFloat>(v)) {
                    Ok(Ok(t)) if t.hi().to_bits() == c.hi && t.lo().to_bits() == c.lo => rep.probes.hit("json_value_rt_ok"),
                    Ok(Ok(t)) => rep.violations.push(viol(
                        "RT_MISMATCH",
                        format!("Value round trip gave ({}, {})", values::hex(t.hi().to_bits()), values::hex(t.lo().to_bits())),
                    )),
                    Ok(Err(e)) => rep.violations.push(viol("RT_REJECTED_VALID", format!("Value round trip rejected: {e}"))),
                    Err(msg) => rep.violations.push(viol("PANIC", format!("from_value panicked: {msg}"))),
                }
            }
            Ok(Err(e)) => rep.violations.push(viol("SER_SPURIOUS_ERR", format!("to_value failed: {e}"))),
            Err(msg) => rep.violations.push(viol("PANIC", format!("to_value panicked: {msg}"))),
        }
        // the value embedded in host structures (flatten, tagged and untagged enums, Option, Vec, map,
        // tuple): serde's own buffering (de)serializers sit between serde_json and twofloat here
        let ideal_reader = ReaderPlan::default();
        for h in HOSTS {
            if h == Host::Bare {
                continue;
            }
            let want = host_to_string(h, refv, refv).unwrap_or_default();
            match guarded(|| host_to_string(h, x, x)) {
                Err(msg) => rep.violations.push(viol("PANIC", format!("serialize inside {} panicked: {msg}", h.name()))),
                Ok(Err(e)) => rep.violations.push(viol("SER_SPURIOUS_ERR", format!("serialize inside {} failed: {e}", h.name()))),
                Ok(Ok(text)) => {
                    if text != want {
                        rep.violations.push(viol("SER_SHAPE", format!("inside {}: emitted {text}, want {want}", h.name())));
                    }
                    match guarded(|| read_as::<TwoFloat>(h, text.as_bytes(), Api::FromStr, &ideal_reader)) {
                        Err(msg) => rep.violations.push(viol("PANIC", format!("deserialize inside {} panicked: {msg}", h.name()))),
                        Ok(ReadOutcome { result: Ok(ts), .. }) => {
                            if !ts.is_empty() && ts.iter().all(|t| t.hi().to_bits() == c.hi && t.lo().to_bits() == c.lo) {
                                rep.probes.hit("json_host_rt_ok");
                            } else {
                                rep.violations.push(viol("RT_MISMATCH", format!("round trip inside {}: {text} came back as {:?}", h.name(), ts)));
                            }
                        }
                        Ok(ReadOutcome { result: Err(e), .. }) => rep.violations.push(viol(
                            "RT_REJECTED_VALID",
                            format!("round trip inside {}: own output {text} rejected: {e}", h.name()),
                        )),
                    }
                }
            }
        }
    }

    // the same value through a second real format (TOML)
    if r0.is_ok() {
        crate::tomlleg::roundtrip(c.hi, c.lo, &mut rep);
    }

    if c.plan.is_faulty() {
        rep.faulted = true;
        let mut w = SimWriter::new(&c.plan);
        let r = guarded(|| to_writer_generic(&mut w, &x, c.pretty));
        rep.steps += w.calls as u64;
        rep.log.u64(w.log.finish());
        rep.sig.u64(w.sig.finish());
        if w.interrupts > 0 {
            rep.faults_fired.add("writer_interrupted", w.interrupts as u64);
        }
        if w.shorts > 0 {
            rep.faults_fired.add("writer_short_write", w.shorts as u64);
        }
        if w.hard_fired {
            rep.faults_fired.hit(if c.plan.sticky { "writer_hard_error_sticky" } else { "writer_hard_error_transient" });
        }
        if w.zero_fired {
            rep.faults_fired.hit("writer_zero_length_write");
        }
        match r {
            Err(msg) => rep.violations.push(viol("PANIC", format!("serialize to JSON panicked under writer faults: {msg}"))),
            Ok(res) => {
                let hard = w.hard_fired || w.zero_fired;
                rep.sig.byte(res.is_ok() as u8);
                rep.sig.byte(hard as u8);
                if hard {
                    if res.is_ok() {
                        rep.violations.push(viol(
                            "SER_ACK_INCOMPLETE",
                            format!(
                                "the JSON writer failed but serialize returned Ok; bytes received: {:?}",
                                String::from_utf8_lossy(&w.data)
                            ),
                        ));
                    } else {
                        rep.probes.hit("json_write_error_propagated");
                    }
                } else {
                    // short writes and EINTR must be transparent
                    if let Err(e) = &res {
                        rep.violations.push(viol("SER_SPURIOUS_ERR", format!("serialize failed under benign writer behaviour: {e}")));
                    } else if r0.is_ok() && w.data != w0.data {
                        rep.violations.push(viol("SER_SHAPE", "output under short writes / EINTR differs from the fault-free output"));
                    } else {
                        rep.probes.hit("json_write_benign_faults_transparent");
                    }
                }
                if r0.is_ok() && !w0.data.starts_with(&w.data) {
                    rep.violations.push(viol(
                        "SER_GARBAGE_PREFIX",
                        format!("bytes received {:?} are not a prefix of {:?}", String::from_utf8_lossy(&w.data), String::from_utf8_lossy(&w0.data)),
                    ));
                }
                rep.outcome = format!("{} hard={} {}/{} bytes in {} calls", if res.is_ok() { "Ok" } else { "Err" }, hard, w.data.len(), w0.data.len(), w.calls);
            }
        }
        // recovery
        let mut w2 = SimWriter::new(&ideal_plan);
        match guarded(|| to_writer_generic(&mut w2, &x, c.pretty)) {
            Ok(Ok(())) if w2.data == w0.data => rep.probes.hit("recovery_ok"),
            Ok(_) => rep.violations.push(viol("RECOVERY_FAILED", "fault-free JSON write after a faulted one differs")),
            Err(msg) => rep.violations.push(viol("PANIC", format!("serialize panicked on recovery: {msg}"))),
        }
    } else {
        rep.outcome = format!("Ok {} bytes in {} calls", w0.data.len(), clean_calls);
    }
    rep.sig.u64(rep.violations.len() as u64);
    rep
}

pub fn generate_write(r: &mut Rng, hi: u64, lo: u64) -> JsonWriteCase {
    let pretty = r.chance(1, 4);
    let mut c = JsonWriteCase { hi, lo, pretty, plan: WriterPlan::default() };
    if r.chance(35, 100) {
        return c;
    }
    // count the calls of a fault-free write so faults land inside the operation
    let x = raw_twofloat(hi, lo);
    let ideal = WriterPlan::default();
    let mut w = SimWriter::new(&ideal);
    let ncalls = match guarded(|| to_writer_generic(&mut w, &x, pretty)) {
        Ok(_) => w.calls.max(1),
        Err(_) => 1,
    };
    let sticky = r.bool();
    let mut plan = WriterPlan { sticky, ..Default::default() };
    // swarm: random subset of writer fault kinds
    if r.bool() {
        plan.max_chunk = Some(1 + r.usize_below(5));
    }
    if r.bool() {
        let n = 1 + r.small(3) as usize;
        for _ in 0..n {
            plan.interrupt_calls.push(r.usize_below(ncalls * 2));
        }
        plan.interrupt_calls.sort_unstable();
        plan.interrupt_calls.dedup();
    }
    // place the hard fault inside the operation as it unfolds under the benign part of the
    // plan (short writes and EINTR multiply the calls), and never on an interrupted call
    let ncalls = {
        let mut w = SimWriter::new(&plan);
        match guarded(|| to_writer_generic(&mut w, &x, pretty)) {
            Ok(_) => w.calls.max(1),
            Err(_) => ncalls,
        }
    };
    let free_call = |r: &mut Rng, plan: &WriterPlan| -> usize {
        for _ in 0..8 {
            let k = r.usize_below(ncalls);
            if !plan.interrupt_calls.contains(&k) {
                return k;
            }
        }
        0
    };
    match r.below(4) {
        0 => plan.fail_at_call = Some(free_call(r, &plan)),
        1 => plan.zero_at_call = Some(free_call(r, &plan)),
        _ => {}
    }
    if !plan.is_faulty() {
        plan.fail_at_call = Some(free_call(r, &plan));
    }
    if let Some(k) = plan.fail_at_call.or(plan.zero_at_call) {
        plan.interrupt_calls.retain(|i| *i != k);
    }
    c.plan = plan;
    c
}

pub fn shrink_write(c: &JsonWriteCase) -> Vec<JsonWriteCase> {
    let mut out = Vec::new();
    let mut push = |d: JsonWriteCase| {
        if d != *c {
            out.push(d);
        }
    };
    push(JsonWriteCase { plan: WriterPlan::default(), ..c.clone() });
    let mut p = c.plan.clone();
    p.max_chunk = None;
    push(JsonWriteCase { plan: p, ..c.clone() });
    let mut p = c.plan.clone();
    p.interrupt_calls.clear();
    push(JsonWriteCase { plan: p, ..c.clone() });
    let mut p = c.plan.clone();
    p.fail_at_call = None;
    push(JsonWriteCase { plan: p, ..c.clone() });
    let mut p = c.plan.clone();
    p.zero_at_call = None;
    push(JsonWriteCase { plan: p, ..c.clone() });
    if let Some(k) = c.plan.fail_at_call {
        if k > 0 {
            let mut p = c.plan.clone();
            p.fail_at_call = Some(k - 1);
            push(JsonWriteCase { plan: p, ..c.clone() });
        }
    }
    push(JsonWriteCase { pretty: false, ..c.clone() });
    for (hi, lo) in values::shrink_words(c.hi, c.lo) {
        if ref_valid_bits(hi, lo) {
            push(JsonWriteCase { hi, lo, ..c.clone() });
        }
    }
    out
}

// ---------------------------------------------------------------- reader side

#[derive(Clone, Debug, Serialize, Deserialize, PartialEq)]
pub enum ByteFault {
    Truncate { len: usize },
    BitFlip { offset: usize, bit: u8 },
    DupSpan { start: usize, len: usize, at: usize },
    ZeroSpan { start: usize, len: usize },
    SwapSpans { a: usize, b: usize, len: usize },
    Overwrite { at: usize, bytes: Vec<u8> },
}

impl ByteFault {
    fn label(&self) -> &'static str {
        match self {
            ByteFault::Truncate { .. } => "bytes_truncate",
            ByteFault::BitFlip { .. } => "bytes_bit_flip",
            ByteFault::DupSpan { .. } => "bytes_dup_span",
            ByteFault::ZeroSpan { .. } => "bytes_zero_span",
            ByteFault::SwapSpans { .. } => "bytes_swap_spans",
            ByteFault::Overwrite { .. } => "bytes_overwrite",
        }
    }
}

#[derive(Clone, Copy, Debug, Serialize, Deserialize, PartialEq, Eq)]
pub enum Api {
    FromReader,
    FromSlice,
    FromStr,
    /// parse the bytes into a `serde_json::Value` tree first, then decode from
    /// the tree (`Value`'s own Deserializer: owned keys, de-duplicated maps)
    ViaValue,
    /// the same through `&Value` (serde_json implements Deserializer for the reference too:
    /// a different type, borrowed keys)
    ViaValueRef,
}

#[derive(Clone, Debug, Serialize, Deserialize, PartialEq, Default)]
pub struct ReaderPlan {
    /// each `read` returns at most this many bytes
    pub max_chunk: Option<usize>,
    /// these `read` calls return `ErrorKind::Interrupted`
    pub interrupt_calls: Vec<usize>,
    /// once this many bytes were handed out the next `read` fails hard
    pub fail_at_offset: Option<usize>,
    /// the stream ends early after this many bytes
    pub eof_at: Option<usize>,
    /// wrap the stream in a `std::io::BufReader` of this capacity (what callers of
    /// `serde_json::from_reader` are told to do): the stream then sees multi-byte reads,
    /// so short reads become observable
    #[serde(default)]
    pub buffered: Option<usize>,
}

pub struct SimReader<'a> {
    data: &'a [u8],
    plan: &'a ReaderPlan,
    pos: usize,
    pub calls: usize,
    pub interrupts: u32,
    /// reads that returned fewer bytes than both the buffer and the stream allowed
    pub shorts: u32,
    pub hard_fired: bool,
    pub eof_fired: bool,
    pub log: Hash64,
}

impl<'a> SimReader<'a> {
    pub fn new(data: &'a [u8], plan: &'a ReaderPlan) -> Self {
        SimReader { data, plan, pos: 0, calls: 0, interrupts: 0, shorts: 0, hard_fired: false, eof_fired: false, log: Hash64::default() }
    }
}

impl Read for SimReader<'_> {
    fn read(&mut self, buf: &mut [u8]) -> io::Result<usize> {
        let idx = self.calls;
        self.calls += 1;
        if self.calls as u64 > STEP_CAP {
            panic!("simulator step cap exceeded in reader");
        }
        if self.plan.interrupt_calls.contains(&idx) {
            self.interrupts += 1;
            self.log.byte(0xE1);
            return Err(io::Error::new(io::ErrorKind::Interrupted, "simulated EINTR"));
        }
        if matches!(self.plan.fail_at_offset, Some(o) if self.pos >= o) {
            self.hard_fired = true;
            self.log.byte(0xEE);
            return Err(io::Error::new(io::ErrorKind::Other, "simulated read failure"));
        }
        let mut end = self.data.len();
        if let Some(e) = self.plan.eof_at {
            if e < end {
                end = e;
                if self.pos >= end {
                    self.eof_fired = true;
                }
            }
        }
        if let Some(o) = self.plan.fail_at_offset {
            // never hand out bytes beyond the failure point
            end = end.min(o.max(self.pos));
        }
        let avail = end.saturating_sub(self.pos);
        let mut n = avail.min(buf.len());
        if let Some(m) = self.plan.max_chunk {
            if m.max(1) < n {
                self.shorts += 1;
            }
            n = n.min(m.max(1));
        }
        buf[..n].copy_from_slice(&self.data[self.pos..self.pos + n]);
        self.pos += n;
        self.log.u64(n as u64);
        Ok(n)
    }
}

#[derive(Clone, Debug, Serialize, Deserialize, PartialEq)]
pub struct JsonReadCase {
    /// the clean text as stored (harness-made: canonical or alternative rendering of a record)
    pub base: String,
    pub base_kind: String,
    /// the structure the record is embedded in (the base text is already wrapped accordingly)
    #[serde(default)]
    pub host: Host,
    pub faults: Vec<ByteFault>,
    pub api: Api,
    pub plan: ReaderPlan,
}

pub fn derive_bytes(c: &JsonReadCase) -> Vec<u8> {
    apply_byte_faults(c.base.as_bytes(), &c.faults)
}

/// For each byte fault, whether it actually changed the stored bytes.
pub fn byte_faults_effective(base: &[u8], faults: &[ByteFault]) -> Vec<bool> {
    let mut out = Vec::with_capacity(faults.len());
    let mut prev = base.to_vec();
    for n in 1..=faults.len() {
        let cur = apply_byte_faults(base, &faults[..n]);
        out.push(cur != prev);
        prev = cur;
    }
    out
}

pub fn apply_byte_faults(base: &[u8], faults: &[ByteFault]) -> Vec<u8> {
    let mut b = base.to_vec();
    for f in faults {
        match f {
            ByteFault::Truncate { len } => b.truncate(*len),
            ByteFault::BitFlip { offset, bit } => {
                if let Some(x) = b.get_mut(*offset) {
                    *x ^= 1 << (bit % 8);
                }
            }
            ByteFault::DupSpan { start, len, at } => {
                if *start < b.len() {
                    let end = (*start + *len).min(b.len());
                    let span = b[*start..end].to_vec();
                    let at = (*at).min(b.len());
                    b.splice(at..at, span);
                }
            }
            ByteFault::ZeroSpan { start, len } => {
                let end = (*start + *len).min(b.len());
                for x in b.iter_mut().take(end).skip(*start) {
                    *x = 0;
                }
            }
            ByteFault::SwapSpans { a, b: bb, len } => {
                let (a, bb, len) = (*a.min(bb), *a.max(bb), *len);
                if a + len <= bb && bb + len <= b.len() {
                    for i in 0..len {
                        b.swap(a + i, bb + i);
                    }
                }
            }
            ByteFault::Overwrite { at, bytes } => {
                for (i, x) in bytes.iter().enumerate() {
                    if let Some(slot) = b.get_mut(at + i) {
                        *slot = *x;
                    }
                }
            }
        }
    }
    b
}

struct ReadOutcome<T> {
    result: Result<T, String>,
    calls: usize,
    interrupts: u32,
    shorts: u32,
    hard_fired: bool,
    eof_fired: bool,
    log: u64,
}

fn read_as<T: for<'de> Deserialize<'de>>(host: Host, bytes: &[u8], api: Api, plan: &ReaderPlan) -> ReadOutcome<Vec<T>> {
    fn finish<'de, T: Deserialize<'de>, R: serde_json::de::Read<'de>>(host: Host, mut de: serde_json::Deserializer<R>) -> Result<Vec<T>, String> {
        if host == Host::Stream {
            let mut out = Vec::new();
            for item in de.into_iter::<T>() {
                out.push(item.map_err(|e| e.to_string())?);
                if out.len() > 64 {
                    break;
                }
            }
            return Ok(out);
        }
        let v = host_from::<T, _>(host, &mut de).map_err(|e| e.to_string())?;
        de.end().map_err(|e| e.to_string())?;
        Ok(v)
    }
    match api {
        Api::FromReader => {
            let mut rd = SimReader::new(bytes, plan);
            let r = match plan.buffered {
                Some(cap) => finish::<T, _>(host, serde_json::Deserializer::from_reader(std::io::BufReader::with_capacity(cap.max(1), &mut rd))),
                None => finish::<T, _>(host, serde_json::Deserializer::from_reader(&mut rd)),
            };
            ReadOutcome { result: r, calls: rd.calls, interrupts: rd.interrupts, shorts: rd.shorts, hard_fired: rd.hard_fired, eof_fired: rd.eof_fired, log: rd.log.finish() }
        }
        Api::FromSlice => ReadOutcome {
            result: finish::<T, _>(host, serde_json::Deserializer::from_slice(bytes)),
            calls: 0,
            interrupts: 0,
            shorts: 0,
            hard_fired: false,
            eof_fired: false,
            log: 0,
        },
        Api::ViaValue => {
            let r = match serde_json::from_slice::<serde_json::Value>(bytes) {
                Err(e) => Err(e.to_string()),
                Ok(v) => {
                    if host == Host::Stream {
                        // a Value holds one document; treat it as a one-record stream
                        T::deserialize(v).map(|t| vec![t]).map_err(|e| e.to_string())
                    } else {
                        host_from::<T, _>(host, v).map_err(|e| e.to_string())
                    }
                }
            };
            ReadOutcome { result: r, calls: 0, interrupts: 0, shorts: 0, hard_fired: false, eof_fired: false, log: 0 }
        }
        Api::ViaValueRef => {
            let r = match serde_json::from_slice::<serde_json::Value>(bytes) {
                Err(e) => Err(e.to_string()),
                Ok(v) => {
                    if host == Host::Stream {
                        T::deserialize(&v).map(|t| vec![t]).map_err(|e| e.to_string())
                    } else {
                        host_from::<T, _>(host, &v).map_err(|e| e.to_string())
                    }
                }
            };
            ReadOutcome { result: r, calls: 0, interrupts: 0, shorts: 0, hard_fired: false, eof_fired: false, log: 0 }
        }
        Api::FromStr => {
            let r = match std::str::from_utf8(bytes) {
                Ok(s) => finish::<T, _>(host, serde_json::Deserializer::from_str(s)),
                Err(_) => finish::<T, _>(host, serde_json::Deserializer::from_slice(bytes)),
            };
            ReadOutcome { result: r, calls: 0, interrupts: 0, shorts: 0, hard_fired: false, eof_fired: false, log: 0 }
        }
    }
}

fn host_probe(h: Host) -> &'static str {
    match h {
        Host::Bare => "json_host_bare",
        Host::Flatten => "json_host_flatten",
        Host::Untagged => "json_host_untagged",
        Host::Tagged => "json_host_internally_tagged",
        Host::Opt => "json_host_option",
        Host::VecOf => "json_host_vec",
        Host::MapOf => "json_host_btreemap",
        Host::Tuple => "json_host_tuple",
        Host::Stream => "json_host_stream",
    }
}

fn words_list(ws: &[(u64, u64)]) -> String {
    let v: Vec<String> = ws.iter().map(|(h, l)| format!("({}, {})", values::hex(*h), values::hex(*l))).collect();
    format!("[{}]", v.join(", "))
}

pub fn execute_read(c: &JsonReadCase) -> LegReport {
    let mut rep = LegReport::default();
    let bytes = derive_bytes(c);
    for (f, eff) in c.faults.iter().zip(byte_faults_effective(c.base.as_bytes(), &c.faults)) {
        if eff {
            rep.faults_fired.hit(f.label());
        } else {
            rep.probes.hit("byte_fault_planned_without_effect");
        }
    }
    if c.api == Api::FromReader && c.plan.buffered.is_some() {
        rep.probes.hit("json_reader_behind_bufreader");
    }
    let plan_faulty = c.api == Api::FromReader
        && (c.plan.max_chunk.is_some() || !c.plan.interrupt_calls.is_empty() || c.plan.fail_at_offset.is_some() || c.plan.eof_at.is_some());
    rep.faulted = !c.faults.is_empty() || plan_faulty;
    rep.probes.hit(match c.api {
        Api::FromReader => "json_api_from_reader",
        Api::FromSlice => "json_api_from_slice",
        Api::FromStr => "json_api_from_str",
        Api::ViaValue => "json_api_via_value",
        Api::ViaValueRef => "json_api_via_value_ref",
    });
    rep.probes.hit(host_probe(c.host));

    // oracle family, each inside the same host and through the identical stream: serde's derive on
    // `Ref` (the standard reader), a reader that insists on f64-typed words, the most liberal
    // conforming reader (numeric strings, integers, extra sequence elements drained, no `fields`
    // hint) and the standard reader without the `fields` hint. The outcome is determinate only
    // where all of them agree.
    fn oracle<T: Words + for<'de> Deserialize<'de>>(c: &JsonReadCase, bytes: &[u8]) -> Result<Result<Vec<(u64, u64)>, String>, String> {
        guarded(|| read_as::<T>(c.host, bytes, c.api, &c.plan)).map(|o| o.result.map(|rs| rs.iter().map(|r| r.words()).collect()))
    }
    let (std_res, strict, lenient, nohint) =
        match (oracle::<Ref>(c, &bytes), oracle::<RefStrict>(c, &bytes), oracle::<RefLenient>(c, &bytes), oracle::<RefNoHint>(c, &bytes)) {
            (Ok(a), Ok(b), Ok(c2), Ok(d)) => (a, b, c2, d),
            other => {
                rep.violations.push(viol("HARNESS", format!("an oracle panicked: {:?}", other)));
                return rep;
            }
        };
    let verdict = family_verdict(&std_res, &[("f64-only", strict), ("lenient", lenient), ("hint-free", nohint)]);
    let unspecified = matches!(verdict, FamilyVerdict::Unspecified(_));
    let expect: Result<Vec<(u64, u64)>, String> = match &verdict {
        FamilyVerdict::Accept(ws) => Ok(ws.clone()),
        FamilyVerdict::Reject(e) => Err(e.clone()),
        FamilyVerdict::Unspecified(e) => Err(format!("unspecified: {e}")),
    };

    let got = match guarded(|| read_as::<TwoFloat>(c.host, &bytes, c.api, &c.plan)) {
        Ok(o) => o,
        Err(msg) => {
            rep.violations.push(viol("PANIC", format!("TwoFloat JSON deserialize panicked: {msg}")));
            rep.outcome = "panic".into();
            return rep;
        }
    };
    rep.steps = got.calls as u64;
    rep.log.bytes(&bytes);
    rep.log.u64(got.log);
    if got.interrupts > 0 {
        rep.faults_fired.add("reader_interrupted", got.interrupts as u64);
    }
    if got.hard_fired {
        rep.faults_fired.hit("reader_hard_error");
    }
    if got.eof_fired {
        rep.faults_fired.hit("reader_early_eof");
    }
    if got.shorts > 0 {
        rep.faults_fired.add("reader_short_reads", got.shorts as u64);
    }
    let got_words: Result<Vec<(u64, u64)>, String> =
        got.result.as_ref().map(|ts| ts.iter().map(|t| (t.hi().to_bits(), t.lo().to_bits())).collect()).map_err(|e| e.clone());
    let text = String::from_utf8_lossy(&bytes).into_owned();

    if let Ok(ws) = &got_words {
        if let Some((h, l)) = ws.iter().find(|(h, l)| !ref_valid_bits(*h, *l)) {
            rep.violations.push(viol(
                "DE_ACCEPTED_INVALID",
                format!("JSON {:?} ({}) decoded to invalid words ({}, {})", text, c.host.name(), values::hex(*h), values::hex(*l)),
            ));
        }
    }
    if got.hard_fired && got_words.is_ok() {
        rep.violations.push(viol("DE_SWALLOWED_IO_ERROR", "the reader failed hard, deserialize still returned Ok"));
    }
    if unspecified {
        rep.probes.hit("json_conforming_readers_disagree_unspecified");
    }
    match (&expect, &got_words) {
        _ if unspecified => {}
        (Ok(want), Ok(have)) => {
            if want != have {
                rep.violations.push(viol(
                    "DE_UNFAITHFUL",
                    format!("JSON {:?} ({}): delivered {} decoded as {}", text, c.host.name(), words_list(want), words_list(have)),
                ));
            } else if want.is_empty() {
                rep.probes.hit("json_accept_host_without_record");
            } else {
                rep.probes.hit("json_accept_valid");
            }
        }
        (Ok(want), Err(e)) => rep.violations.push(viol(
            "RT_REJECTED_VALID",
            format!("JSON {:?} ({}) holds valid words {} but was rejected: {e}", text, c.host.name(), words_list(want)),
        )),
        (Err(why), Ok(have)) => {
            let class = if why == "overlap" || why == "non-finite" {
                "DE_ACCEPTED_INVALID"
            } else if why.contains("duplicate field") {
                "DE_ACCEPTED_DUPLICATE"
            } else if why.contains("missing field") || why.contains("invalid length") {
                "DE_ACCEPTED_MISSING"
            } else if why.contains("unknown field") {
                "DE_ACCEPTED_UNKNOWN"
            } else if why.contains("EOF") {
                "DE_ACCEPTED_TRUNCATED"
            } else if why.contains("simulated read failure") {
                "DE_SWALLOWED_IO_ERROR"
            } else {
                "DE_ACCEPTED_MALFORMED"
            };
            if !rep.violations.iter().any(|v| v.class == class) {
                rep.violations.push(viol(
                    class,
                    format!("JSON {:?} ({}) must be rejected ({why}) but decoded as {}", text, c.host.name(), words_list(have)),
                ));
            }
        }
        (Err(why), Err(_)) => {
            rep.probes.hit(if why == "overlap" {
                "json_reject_overlap"
            } else if why == "non-finite" {
                "json_reject_nonfinite"
            } else if why.contains("duplicate field") {
                "json_reject_duplicate"
            } else if why.contains("missing field") {
                "json_reject_missing"
            } else if why.contains("unknown field") {
                "json_reject_unknown"
            } else if why.contains("invalid length") {
                "json_reject_invalid_length"
            } else if why.contains("EOF") {
                "json_reject_eof"
            } else if why.contains("simulated read failure") {
                "json_reject_io_error"
            } else if why.contains("trailing") {
                "json_reject_trailing"
            } else if why.contains("invalid type") {
                "json_reject_invalid_type"
            } else if why.contains("did not match any variant") {
                "json_reject_untagged_no_variant"
            } else {
                "json_reject_syntax_or_other"
            });
        }
    }
    rep.sig.str(&c.base_kind);
    rep.sig.byte(c.host as u8);
    rep.sig.byte(c.api as u8);
    rep.sig.byte(got_words.is_ok() as u8);
    rep.sig.byte(got.hard_fired as u8);
    rep.sig.byte(got.eof_fired as u8);
    // abstract error class from the oracle's message so that the signature distinguishes rejection paths
    if let Err(w) = &expect {
        rep.sig.str(w.split(|ch: char| ch.is_ascii_digit() || ch == '`' || ch == '"').next().unwrap_or(""));
    }
    rep.outcome = format!(
        "{} expect {}",
        match &got_words {
            Ok(ws) => format!("Ok({})", words_list(ws)),
            Err(e) => format!("Err({e})"),
        },
        match &expect {
            Ok(_) => "Ok".to_string(),
            Err(e) => format!("Err({e})"),
        }
    );
    rep
}

/// Embed the bare record text in a host structure.
fn wrap_in_host(r: &mut Rng, host: Host, text: &str, other_text: &str) -> Option<String> {
    let inject = |r: &mut Rng, member: &str| -> Option<String> {
        let t = text.trim_start();
        if !t.starts_with('{') || !t.trim_end().ends_with('}') {
            return None;
        }
        let inner = &t[1..];
        let body_empty = inner.trim() == "}";
        Some(if body_empty {
            format!("{{{member}}}")
        } else if r.bool() {
            format!("{{{member},{inner}")
        } else {
            let t2 = t.trim_end();
            format!("{},{member}}}", &t2[..t2.len() - 1])
        })
    };
    match host {
        Host::Bare | Host::Untagged | Host::Opt => Some(text.to_string()),
        Host::Flatten => inject(r, "\"id\":7"),
        Host::Tagged => inject(r, "\"kind\":\"Two\""),
        Host::VecOf | Host::Tuple => Some(if r.bool() { format!("[{text},{other_text}]") } else { format!("[{other_text},{text}]") }),
        Host::MapOf => Some(if r.bool() { format!("{{\"a\":{text},\"b\":{other_text}}}") } else { format!("{{\"a\":{other_text},\"b\":{text}}}") }),
        Host::Stream => Some(match r.below(3) {
            0 => format!("{text}\n{other_text}\n"),
            1 => format!("{other_text} {text}"),
            _ => format!("{other_text}\n{text}\n{other_text}"),
        }),
    }
}

fn num_text(r: &mut Rng, bits: u64) -> String {
    let x = f64::from_bits(bits);
    if !x.is_finite() {
        // what writers emit for non-finite numbers
        return (*r.pick(&["null", "NaN", "Infinity", "-Infinity", "1e999", "-1e999", "\"inf\""])).to_string();
    }
    match r.below(8) {
        0 => format!("{:e}", x),
        1 => format!("{:E}", x),
        2 => {
            let mut s = format!("{}", x);
            if s.len() >= 400 {
                s = serde_json::to_string(&x).unwrap();
            } else if !s.contains('.') && r.chance(2, 3) {
                s.push_str(".0"); // keep it float-typed
            }
            s
        }
        3 => {
            // more digits than needed (still parses to the same f64 with float_roundtrip)
            format!("{:.25e}", x)
        }
        _ => serde_json::to_string(&x).unwrap(),
    }
}

/// Words for a stored record: the valid value, or a boundary / media
/// corruption of it.
fn record_words(r: &mut Rng, hi: u64, lo: u64, other: (u64, u64)) -> (u64, u64, &'static str) {
    if r.chance(1, 2) {
        return (hi, lo, "valid");
    }
    let hf = f64::from_bits(hi);
    let sgn = if r.bool() { SIGN } else { 0 };
    let h = half_ulp(hf).map(|x| x.to_bits());
    match r.below(10) {
        0 => (lo, hi, "swapped"),
        1 => (hi, hi, "lo_is_hi"),
        2 => (hi, other.0, "stale_lo"),
        3 => (other.0, lo, "stale_hi"),
        4 => match h {
            Some(h) => (hi, h | sgn, "half_ulp"),
            None => (hi, 1, "min_subnormal_lo"),
        },
        5 => match h {
            Some(h) => (hi, next_up_bits(h) | sgn, "half_ulp_up"),
            None => (hi, 1, "min_subnormal_lo"),
        },
        6 => match h {
            Some(h) => (hi, next_down_bits(h) | sgn, "half_ulp_down"),
            None => (hi, 1, "min_subnormal_lo"),
        },
        7 => (hi, lo ^ (1u64 << r.below(64)), "lo_bit_flip"),
        8 => (hi ^ (1u64 << r.below(64)), lo, "hi_bit_flip"),
        _ => (next_up_bits(hi), lo, "hi_next_up"),
    }
}

pub fn generate_read(r: &mut Rng, hi: u64, lo: u64, other: (u64, u64)) -> JsonReadCase {
    let (wh, wl, wkind) = record_words(r, hi, lo, other);
    let nh = num_text(r, wh);
    let nl = num_text(r, wl);
    let ws = |r: &mut Rng| -> &'static str { *r.pick(&["", "", "", " ", "\n", "\t ", "  "]) };
    let key = |r: &mut Rng, k: &str| -> String {
        if r.chance(1, 10) {
            // escaped spelling of the same key
            match k {
                "hi" => "\"h\\u0069\"".to_string(),
                _ => "\"\\u006co\"".to_string(),
            }
        } else {
            format!("\"{k}\"")
        }
    };
    let unknown = crate::vocab::unknown_name(r);
    let unknown_json = serde_json::to_string(&unknown).unwrap();
    let (base, shape): (String, &'static str) = match r.below(24) {
        0..=6 => (format!("{{{}{}:{}{},{}:{}{}}}", ws(r), key(r, "hi"), ws(r), nh, key(r, "lo"), nl, ws(r)), "object_hi_lo"),
        7..=10 => (format!("{{{}:{},{}{}:{}{}}}", key(r, "lo"), nl, ws(r), key(r, "hi"), nh, ws(r)), "object_lo_hi"),
        11..=14 => (format!("[{}{},{}{}]", ws(r), nh, ws(r), nl), "array_2"),
        15 => (format!("{{\"hi\":{nh}}}"), "object_missing_lo"),
        16 => (format!("{{\"lo\":{nl}}}"), "object_missing_hi"),
        17 => (
            if r.bool() { format!("{{\"hi\":{nh},\"lo\":{nl},\"hi\":{nh}}}") } else { format!("{{\"lo\":{nl},\"lo\":{nl},\"hi\":{nh}}}") },
            "object_duplicate",
        ),
        18 => (
            match r.below(3) {
                0 => format!("{{{unknown_json}:0,\"hi\":{nh},\"lo\":{nl}}}"),
                1 => format!("{{\"hi\":{nh},{unknown_json}:null,\"lo\":{nl}}}"),
                _ => format!("{{\"hi\":{nh},\"lo\":{nl},{unknown_json}:{{\"a\":[1,2]}}}}"),
            },
            "object_unknown_field",
        ),
        19 => match r.below(3) {
            0 => (format!("[{nh}]"), "array_short"),
            1 => ("[]".to_string(), "array_short"),
            _ => {
                // one key replaced by a near-miss spelling of itself
                let which = if r.bool() { "hi" } else { "lo" };
                let deco = serde_json::to_string(&crate::vocab::decorated(r, which)).unwrap();
                if which == "hi" { (format!("{{{deco}:{nh},\"lo\":{nl}}}"), "object_key_near_miss") } else { (format!("{{\"hi\":{nh},{deco}:{nl}}}"), "object_key_near_miss") }
            }
        },
        20 => (format!("[{nh},{nl},{nl}]"), "array_3"),
        21 => (
            (*r.pick(&["{}", "null", "1.5", "\"1 + 0.5\"", "true", "{\"hi\":null,\"lo\":0}", "{\"hi\":\"1\",\"lo\":0}", "{\"hi\":[1],\"lo\":0}", "{\"hi\":{\"hi\":1,\"lo\":0},\"lo\":0}"]))
                .to_string(),
            "wrong_shape",
        ),
        22 => (format!("{{\"hi\":{nh},\"lo\":{nl}}} {}", *r.pick(&["x", "{}", ",", "0", "]"])), "trailing_garbage"),
        _ => (serde_json::to_string_pretty(&RefSer { hi: f64::from_bits(wh), lo: f64::from_bits(wl) }).unwrap_or_else(|_| "{}".into()), "object_pretty"),
    };
    let mut host = if r.chance(2, 5) { *r.pick(&HOSTS) } else { Host::Bare };
    let other_text = serde_json::to_string(&RefSer { hi: f64::from_bits(other.0), lo: f64::from_bits(other.1) }).unwrap_or_else(|_| "{}".into());
    let base = match wrap_in_host(r, host, &base, &other_text) {
        Some(b) => b,
        None => {
            host = Host::Bare;
            base
        }
    };
    let base_kind = format!("{shape}/{wkind}/{}", host.name());
    let api = match r.below(6) {
        0 => Api::FromSlice,
        1 => Api::FromStr,
        2 => Api::ViaValue,
        3 => Api::ViaValueRef,
        _ => Api::FromReader,
    };
    let mut c = JsonReadCase { base, base_kind, host, faults: vec![], api, plan: ReaderPlan::default() };
    if r.chance(35, 100) {
        return c;
    }
    let n = c.base.len().max(1);
    let fam_bytes = r.bool();
    let fam_reader = r.bool() || !fam_bytes;
    if fam_bytes {
        let k = 1 + r.small(3) as usize;
        for _ in 0..k {
            let f = match r.below(9) {
                0 | 1 => ByteFault::Truncate { len: r.usize_below(n) },
                2..=4 => ByteFault::BitFlip { offset: r.usize_below(n), bit: r.below(8) as u8 },
                5 => ByteFault::DupSpan { start: r.usize_below(n), len: 1 + r.usize_below(12), at: r.usize_below(n + 1) },
                6 => ByteFault::ZeroSpan { start: r.usize_below(n), len: 1 + r.usize_below(8) },
                7 => {
                    let len = 1 + r.usize_below(6);
                    ByteFault::SwapSpans { a: r.usize_below(n), b: r.usize_below(n), len }
                }
                _ => {
                    // overwrite a digit with another digit: the realistic way to reach "overlap" from media corruption
                    let digits: Vec<usize> = c.base.bytes().enumerate().filter(|(_, b)| b.is_ascii_digit()).map(|(i, _)| i).collect();
                    if digits.is_empty() {
                        ByteFault::BitFlip { offset: r.usize_below(n), bit: 0 }
                    } else {
                        ByteFault::Overwrite { at: *r.pick(&digits), bytes: vec![b'0' + r.below(10) as u8] }
                    }
                }
            };
            c.faults.push(f);
        }
    }
    if fam_reader {
        c.api = Api::FromReader;
        if r.bool() {
            c.plan.buffered = Some(*r.pick(&[8usize, 16, 64, 4096]));
        }
        if r.bool() {
            c.plan.max_chunk = Some(1 + r.usize_below(7));
        }
        if r.bool() {
            let k = 1 + r.small(3) as usize;
            for _ in 0..k {
                c.plan.interrupt_calls.push(r.usize_below(n + 4));
            }
            c.plan.interrupt_calls.sort_unstable();
            c.plan.interrupt_calls.dedup();
        }
        match r.below(4) {
            0 => c.plan.fail_at_offset = Some(r.usize_below(n + 1)),
            1 => c.plan.eof_at = Some(r.usize_below(n)),
            _ => {}
        }
    }
    c
}

pub fn shrink_read(c: &JsonReadCase) -> Vec<JsonReadCase> {
    let mut out = Vec::new();
    let mut push = |d: JsonReadCase| {
        if d != *c {
            out.push(d);
        }
    };
    for i in 0..c.faults.len() {
        let mut d = c.clone();
        d.faults.remove(i);
        push(d);
    }
    push(JsonReadCase { plan: ReaderPlan::default(), ..c.clone() });
    let mut p = c.plan.clone();
    p.max_chunk = None;
    push(JsonReadCase { plan: p, ..c.clone() });
    let mut p = c.plan.clone();
    p.buffered = None;
    push(JsonReadCase { plan: p, ..c.clone() });
    let mut p = c.plan.clone();
    p.interrupt_calls.clear();
    push(JsonReadCase { plan: p, ..c.clone() });
    let mut p = c.plan.clone();
    p.fail_at_offset = None;
    push(JsonReadCase { plan: p, ..c.clone() });
    let mut p = c.plan.clone();
    p.eof_at = None;
    push(JsonReadCase { plan: p, ..c.clone() });
    push(JsonReadCase { api: Api::FromSlice, ..c.clone() });
    // fold the faults into the base text when it stays UTF-8, then simplify whitespace
    if !c.faults.is_empty() {
        if let Ok(s) = String::from_utf8(derive_bytes(c)) {
            push(JsonReadCase { base: s, faults: vec![], ..c.clone() });
        }
    }
    let compact: String = c.base.chars().filter(|ch| !ch.is_whitespace()).collect();
    push(JsonReadCase { base: compact, ..c.clone() });
    out
}
