#!/usr/bin/env bash
# False-alarm hunt: run the quick check under many different VERIF_SEED values on the
# unchanged tree; any non-zero exit is reported. Evidence/replays go to a scratch dir.
# usage: tools/seed_sweep.sh <first> <last>
set -u
cd "$(dirname "$0")/.."
first=${1:-1}; last=${2:-200}
out=$(mktemp -d /tmp/seed-sweep.XXXX)
bad=0
for s in $(seq "$first" "$last"); do
  VERIF_SEED=$s ./check C20 quick --out-dir "$out" >"$out/log.$s" 2>&1; rc=$?
  if [ $rc -ne 0 ]; then echo "SEED $s exit=$rc"; grep -E "violation|HARNESS|VIOLATION" "$out/log.$s" | head -5; bad=$((bad+1)); else rm -f "$out/log.$s"; fi
done
echo "seeds $first..$last done, non-zero exits: $bad (logs in $out)"
[ $bad -eq 0 ]
